// C11 (kernel): responses forbidden to be stored are never served from cache.
//
// Decided kernels (all real code, re-read from the repo on every run):
//  K1 c11_decision: the store decision HttpStateData::reusableReply() (src/http.cc) with the real refreshIsCachable()/
//     refreshCheck()/refreshStaleness() (src/refresh.cc), Client::finalReply(), MemObject::storeId(), HttpHeader::getStr().
//     Symbolic: request and reply Cache-Control objects (every mask over the 14 recognised directives, numeric values,
//     no-cache field list present or not), request flags auth/authSent, reply status 0..999, reply Date/Expires/
//     Content-Length, entry flags (16 bits), entry timestamp/expires, ignoreCacheControl, surrogateNoStore, sawDateGoBack,
//     negative_ttl.
//  K2 c11_hdr_*: the whole reply-header hook HttpStateData::haveParsedReplyHeaders() (src/http.cc: previous-entry date check,
//     Vary test, reusableReply(), the switch that acts on the decision, the ENTRY_REVALIDATE_* flags) on a really constructed
//     HttpReply whose Cache-Control field(s) are TEXT with symbolic bytes (case, separators, duplicates, arguments), parsed by
//     the real HttpReply::hdrCacheInit() -> HttpHeader::getCc() -> HttpHdrCc::parse(); same for the request's Cache-Control.
//     StoreEntry::makePublic()/cacheNegatively()/makePrivate() are recorders (store.cc is not linked): the assertion is about
//     which of them the real code calls.
//  K3 c11_request_veto: HttpRequest::maybeCacheable() (src/HttpRequest.cc), the request-side veto that
//     clientInterpretRequestHeaders() turns into flags.cachable.
//
// Oracle (from the property text; written over the inputs, not over Squid's intermediate results). A response is FORBIDDEN if
//   (a) its Cache-Control has no-store, or (b) it has private, or (c) the request's Cache-Control has no-store, or
//   (d) the request carried Authorization credentials (flags.auth, set by clientInterpretRequestHeaders() for an Authorization
//       header or URL userinfo) and the response's Cache-Control has none of public, must-revalidate, s-maxage.
//   Rows (a)-(c) are claimed when Squid honours Cache-Control at all (ignoreCacheControl is false: it is set only for an
//   accelerator honouring Surrogate-Control, not a default setting; request flags.ignoreCc off likewise).
//   This build has USE_HTTP_VIOLATIONS: in row (d) a reply "no-cache" without field list is stored as well; for that exception
//   K2 asserts that the entry is marked ENTRY_REVALIDATE_ALWAYS (every later hit goes to the origin first).
//   FORBIDDEN => the decision is reuseNot -- or doNotCacheButShare when the entry was already released (RELEASE_REQUEST:
//   it has lost its public key for good and makePublic() refuses it) -- and never cachePositively/cacheNegatively (K1);
//   FORBIDDEN => neither makePublic() nor cacheNegatively() is called and makePrivate() is (K2).
// Not demanded: that anything else is cached.
#include "C11_env.h"
#include "anyp/Uri.h"
#include "anyp/UriScheme.h"
#include "http/StatusCode.h"
#include "globals.h"

int neighbors_do_private_keys = 0; // globals.cc is not linked; 0 = no peers configured (default)

// ---- recorders standing in for store.cc (not linked)
static int madePublic, madeNegative, madePrivate;
static StoreEntry *previousEntry; // what the store lookup for the same URL finds (nullptr: nothing cached yet)
bool StoreEntry::makePublic(const KeyScope) { ++madePublic; return true; }
bool StoreEntry::cacheNegatively() { ++madeNegative; return true; }
void StoreEntry::makePrivate(const bool) { ++madePrivate; }
bool StoreEntry::timestampsSet() { return true; } // the harness sets timestamp/expires/lastmod itself (symbolic)
void StoreEntry::lock(const char *) {}
int StoreEntry::unlock(const char *) { return 1; }
StoreEntry *storeGetPublic(const char *, const HttpRequestMethod &) { return previousEntry; }
StoreEntry *storeGetPublicByRequest(HttpRequest *, const KeyScope) { return previousEntry; }

// ---- the objects the kernels read. HttpStateData, HttpRequest, StoreEntry, MemObject are zeroed raw memory of the real size
// (their constructor chains need the whole proxy) with the members the kernels read constructed/set here; HttpReply is real.
struct World {
    HttpStateData *hs;
    HttpRequest *req;
    HttpReply *rep;
    StoreEntry *entry;
    MemObject *mem;
    explicit World(HttpReply *aReply)
    {
        hs = rawObject<HttpStateData>();
        req = rawObject<HttpRequest>();
        rep = aReply;
        entry = rawObject<StoreEntry>();
        mem = rawObject<MemObject>();
        ::new (&req->method) HttpRequestMethod(Http::METHOD_GET);
        ::new (&req->header) HttpHeader(hoRequest);
        ::new (&mem->storeId_) SBuf("http://h.x/p");
        ::new (&mem->method) HttpRequestMethod(Http::METHOD_GET);
        rawPointer(mem->reply_, rep);
        entry->mem_obj = mem;
        hs->entry = entry;
        rawPointer(hs->request, req);
        hs->theFinalReply = rep;
    }
    // entry times as StoreEntry::timestampsSet() may leave them; lastmod absent (the LM-factor rule is floating point and
    // no part of this property)
    void symbolicEntryTimes()
    {
        entry->timestamp = (time_t)vf_range(0, 1000000000, "timestamp");
        entry->expires = (time_t)(int32_t)vf_nondet_u32("entry_expires");
        entry->lastModified_ = -1;
    }
};

static void config()
{
    vf_quiet();
    Config.minimum_expiry_time = 60;       // default
    Config.maxStale = 604800;              // default max_stale 1 week
    Config.Refresh = nullptr;              // no refresh_pattern line: the built-in rule (0 20% 4320), no override options
    Config.negativeTtl = (time_t)vf_range(0, 3600, "negative_ttl"); // default 0; the property must hold for any value
    squid_curtime = 1000000000;
}

// (optnone: clang otherwise builds a relative lookup table of string literals, which the engine does not model)
__attribute__((optnone, noinline)) static void reachAnswer(const int a)
{
    if (a == HttpStateData::ReuseDecision::reuseNot) vf_reach("reuseNot");
    else if (a == HttpStateData::ReuseDecision::cachePositively) vf_reach("cachePositively");
    else if (a == HttpStateData::ReuseDecision::cacheNegatively) vf_reach("cacheNegatively");
    else vf_reach("doNotCacheButShare");
}

// ================================================================== K1
extern "C" void c11_decision(void)
{
    config();
    World w(rawObject<HttpReply>());
    ::new (&w.rep->header) HttpHeader(hoReply);

    HttpHdrCc *reqCc = vf_concretize(vf_bool("req_has_cc")) ? symbolicCc("req_cc", false) : nullptr;
    w.req->cache_control = reqCc;
    const bool auth = vf_bool("flags_auth");
    w.req->flags.auth = auth;
    w.req->flags.authSent = vf_bool("flags_authSent"); // Squid added peer login credentials (no claim attached)

    HttpHdrCc *repCc = vf_concretize(vf_bool("rep_has_cc")) ? symbolicCc("rep_cc", true) : nullptr;
    w.rep->cache_control = repCc;
    const unsigned status = vf_range(0, 999, "status");
    w.rep->sline.set(Http::ProtocolVersion(1, 1), static_cast<Http::StatusCode>(status));
    w.rep->date = (time_t)(int32_t)vf_nondet_u32("date");
    w.rep->expires = (time_t)(int32_t)vf_nondet_u32("expires");
    w.rep->content_length = (int64_t)(int32_t)vf_nondet_u32("content_length");

    const uint16_t eflags = vf_nondet_u16("entry_flags");
    w.entry->flags = eflags;
    w.symbolicEntryTimes();

    const bool ignoreCc = vf_bool("ignoreCacheControl");
    w.hs->ignoreCacheControl = ignoreCc;
    w.hs->surrogateNoStore = vf_bool("surrogateNoStore");
    w.hs->sawDateGoBack = vf_bool("sawDateGoBack");

    HttpStateData::ReuseDecision decision(w.entry, static_cast<Http::StatusCode>(status));
    const int answer = w.hs->reusableReply(decision);
    vf_observe("answer", answer);
    vf_assert(answer == decision.answer, "the returned answer is the recorded decision");

    const bool released = (eflags >> RELEASE_REQUEST) & 1;
    const bool stored = answer == HttpStateData::ReuseDecision::cachePositively || answer == HttpStateData::ReuseDecision::cacheNegatively;
    const bool notReusable = answer == HttpStateData::ReuseDecision::reuseNot ||
                             (released && answer == HttpStateData::ReuseDecision::doNotCacheButShare);
    const bool sharedOk = !ignoreCc && (ccHas(repCc, CC_PUBLIC) || ccHas(repCc, CC_MUST_REVALIDATE) || ccHas(repCc, CC_S_MAXAGE));
    const bool noCacheException = !ignoreCc && ccHas(repCc, CC_NO_CACHE) && repCc->no_cache.size() == 0; // USE_HTTP_VIOLATIONS build
    if (!ignoreCc && ccHas(repCc, CC_NO_STORE)) {
        vf_assert(!stored, "a reply with Cache-Control: no-store is never stored");
        vf_assert(notReusable, "a reply with Cache-Control: no-store is not reusable");
        vf_reach("reply-no-store");
    }
    if (!ignoreCc && ccHas(repCc, CC_PRIVATE)) {
        vf_assert(!stored, "a reply with Cache-Control: private is never stored");
        vf_assert(notReusable, "a reply with Cache-Control: private is not reusable");
        vf_reach("reply-private");
    }
    if (!ignoreCc && ccHas(reqCc, CC_NO_STORE)) {
        vf_assert(!stored, "the reply to a request with Cache-Control: no-store is never stored");
        vf_assert(notReusable, "the reply to a request with Cache-Control: no-store is not reusable");
        vf_reach("request-no-store");
    }
    if (auth && !sharedOk && !noCacheException) {
        vf_assert(!stored, "the reply to a request with credentials is stored only with public, must-revalidate or s-maxage");
        vf_assert(notReusable, "the reply to a request with credentials is reusable only with public, must-revalidate or s-maxage");
        vf_reach("auth-not-shared");
    }
    if (auth && stored)
        reachEither(sharedOk, "auth-shared-stored", "auth-no-cache-exception-stored");
    reachAnswer(answer);
    WITNESS_POINT();
}

// ================================================================== K2
// Reference reader of a Cache-Control field value (RFC 9111 5.2: #cache-directive, names case-insensitive): the value is split
// at commas outside double quotes, each item is trimmed, the directive name is the text before the first '='.
// Both uses are one-directional, so the reader errs on the safe side of each:
//  strict (directives that FORBID storing: no-store, private): only SP/HTAB are trimmed (RFC 9110 OWS) -- "certainly present";
//  liberal (directives that ALLOW storing a reply to a request with credentials: public, must-revalidate, s-maxage): every C
//   whitespace byte (SP HT LF VT FF CR) around an item is ignored, as lenient recipients such as Squid's list splitter do --
//   "possibly present"; the row "credentials and none of them" is claimed only when none is even possibly present.
static uint8_t low(uint8_t c) { return (c >= 'A' && c <= 'Z') ? c + 32 : c; }
static bool refWs(const uint8_t c, const bool liberal) { return c == ' ' || c == '\t' || (liberal && c >= 10 && c <= 13); }
static bool refHas(const uint8_t *s, const unsigned n, const char *name, const bool liberal = false)
{
    unsigned i = 0;
    while (i <= n) {
        unsigned b = i;
        bool quoted = false;
        for (; i < n; ++i) {
            if (s[i] == '"') quoted = !quoted;
            else if (quoted && s[i] == '\\') { if (i + 1 < n) ++i; }
            else if (!quoted && s[i] == ',') break;
        }
        unsigned e = i;
        ++i; // past the comma
        while (b < e && refWs(s[b], liberal)) ++b;
        while (e > b && refWs(s[e - 1], liberal)) --e;
        unsigned q = b;
        while (q < e && s[q] != '=') ++q;
        unsigned k = 0;
        while (b + k < q && name[k] && low(s[b + k]) == (uint8_t)name[k]) ++k;
        if (b + k == q && !name[k] && k) return true;
    }
    return false;
}

struct Field { const char *tmpl; unsigned len; };
#define F(lit) { lit, sizeof(lit) - 1 }
#define MAXV 48

// value bytes of one Cache-Control field: '\x01' = fully symbolic byte of a field value (not NUL/CR/LF)
static unsigned fieldValue(const Field &f, uint8_t *out)
{
    for (unsigned i = 0; i < f.len; ++i) {
        if (f.tmpl[i] != '\x01') { out[i] = (uint8_t)f.tmpl[i]; continue; }
        const uint8_t c = vf_nondet_u8("b");
        vf_assume(c != 0 && c != '\r' && c != '\n');
        out[i] = c;
    }
    out[f.len] = 0;
    return f.len;
}

// joined = the field values joined with ", " (what the reference reads; RFC 9110 5.3: several fields = one list)
static unsigned addFields(HttpHeader &hdr, const Field *f, const unsigned nf, uint8_t *joined)
{
    unsigned n = 0;
    for (unsigned k = 0; k < nf; ++k) {
        uint8_t v[MAXV];
        const unsigned len = fieldValue(f[k], v);
        if (len) { // a field value as parsed is trimmed
            vf_assume(v[0] != ' ' && v[0] != '\t' && v[len - 1] != ' ' && v[len - 1] != '\t');
        }
        hdr.addEntry(new HttpHeaderEntry(Http::HdrType::CACHE_CONTROL, SBuf(), reinterpret_cast<const char *>(v))); // as HttpHeader::parse() does
        if (k) { joined[n++] = ','; joined[n++] = ' '; }
        for (unsigned i = 0; i < len; ++i) joined[n++] = v[i];
    }
    return n;
}

static void headers(const Field *repF, const unsigned nRep, const Field *reqF, const unsigned nReq, const bool auth)
{
    config();
    HttpReply *rep = new HttpReply;
    World w(rep);
    madePublic = madeNegative = madePrivate = 0;
    previousEntry = nullptr; // nothing cached for this URL yet (K1 covers sawDateGoBack)

    // request: Cache-Control text and Authorization presence; flags.auth as clientInterpretRequestHeaders() sets it
    uint8_t reqText[2 * MAXV]; const unsigned reqLen = addFields(w.req->header, reqF, nReq, reqText);
    w.req->cache_control = w.req->header.getCc(); // Http::Message::hdrCacheInit()
    if (auth) w.req->header.putStr(Http::HdrType::AUTHORIZATION, "Basic dTpw");
    w.req->flags.auth = w.req->header.has(Http::HdrType::AUTHORIZATION);

    // reply: a status of the "cacheable" group (200 203 300 301 308 410) or 404 (negatively cached if negative_ttl > 0)
    uint8_t repText[2 * MAXV]; const unsigned repLen = addFields(rep->header, repF, nRep, repText);
    const unsigned status = vf_range(200, 410, "status");
    vf_assume(status == 200 || status == 203 || status == 300 || status == 301 || status == 308 || status == 410 || status == 404);
    rep->sline.set(Http::ProtocolVersion(1, 1), static_cast<Http::StatusCode>(status));
    rep->header.putStr(Http::HdrType::CONTENT_TYPE, "text/plain");
    rep->hdrCacheInit(); // the real header cache: cache_control, date, expires (no Date/Expires fields: -1), content_length ...
    // a fresh private entry, received now, no explicit expiry, unknown length: cachePositively unless something forbids it
    w.entry->flags = (1 << KEY_PRIVATE);
    w.entry->timestamp = squid_curtime;
    w.entry->expires = -1;
    w.entry->lastModified_ = -1;

    w.hs->HttpStateData::haveParsedReplyHeaders(); // qualified: the raw object has no vptr

    vf_observe("public", madePublic); vf_observe("negative", madeNegative); vf_observe("private", madePrivate); vf_observe("flags", w.entry->flags);
    const bool stored = madePublic || madeNegative;
    const bool repNoStore = refHas(repText, repLen, "no-store"), repPrivate = refHas(repText, repLen, "private");
    const bool reqNoStore = refHas(reqText, reqLen, "no-store");
    const bool sharedOk = refHas(repText, repLen, "public", true) || refHas(repText, repLen, "must-revalidate", true) || refHas(repText, repLen, "s-maxage", true);
    const bool revalidateAlways = (w.entry->flags >> ENTRY_REVALIDATE_ALWAYS) & 1;
    vf_assert(madePublic + madeNegative + madePrivate == 1, "exactly one publication decision is acted upon");
    if (repNoStore) { vf_assert(!stored && madePrivate, "a reply with Cache-Control: no-store is never given a public key"); vf_reach("reply-no-store"); }
    if (repPrivate) { vf_assert(!stored && madePrivate, "a reply with Cache-Control: private is never given a public key"); vf_reach("reply-private"); }
    if (reqNoStore) { vf_assert(!stored && madePrivate, "the reply to a request with Cache-Control: no-store is never given a public key"); vf_reach("request-no-store"); }
    if (auth && !sharedOk) {
        // the only way such a reply may be stored is the USE_HTTP_VIOLATIONS no-cache exception, and then only for revalidation
        vf_assert(!stored || revalidateAlways,
                  "the reply to a request with credentials is stored without public/must-revalidate/s-maxage only if every hit must be revalidated");
        reachEither(stored, "auth-no-cache-exception-stored", "auth-not-shared");
    }
    if (stored) reachEither(auth, "auth-stored", "stored");
    WITNESS_POINT();
}

#define HDRFAM(fn, AUTH, REP, REQ) extern "C" void fn(void) { static const Field rep[] = REP; static const Field req[] = REQ; \
    headers(rep, sizeof(rep) / sizeof(*rep) - 1, req, sizeof(req) / sizeof(*req) - 1, AUTH); }
#define L(...) { __VA_ARGS__, {nullptr, 0} }
#define NONE { {nullptr, 0} }
#ifdef VF_THOROUGH
#define T(quick, thorough) thorough
#else
#define T(quick, thorough) quick
#endif
// case of the directive names
HDRFAM(c11_hdr_case, false, L(F(T("\x01o-\x01tore", "\x01o-\x01tor\x01"))), NONE)
HDRFAM(c11_hdr_case_private, false, L(F(T("max-age=60, \x01rivat\x01", "max-age=60, \x01r\x01vat\x01"))), NONE)
// separators/spacing between directives
HDRFAM(c11_hdr_sep, false, L(F(T("public\x01\x01no-store", "public\x01\x01\x01no-store"))), NONE)
HDRFAM(c11_hdr_sep_private, false, L(F(T("private\x01\x01s-maxage=9", "private\x01\x01s-maxage=9\x01"))), NONE)
// arguments and duplicates (second field line)
HDRFAM(c11_hdr_args, false, L(F(T("public, private\x01\x01", "public, private\x01\x01\x01"))), NONE)
HDRFAM(c11_hdr_dup, false, L(F("public"), F(T("max-age=5\x01 \x01o-store", "max-age=5\x01\x01\x01o-store"))), NONE)
// request side
HDRFAM(c11_hdr_req, false, L(F("public, max-age=60")), L(F(T("\x01o-store\x01max-age=0", "\x01o-store\x01\x01max-age=0"))))
HDRFAM(c11_hdr_req_dup, false, L(F("public")), L(F("no-cache"), F(T("no-\x01tor\x01", "\x01o-\x01tor\x01"))))
// credentials: which reply directives allow sharing
HDRFAM(c11_hdr_auth, true, L(F(T("\x01ubli\x01", "\x01ubl\x01\x01"))), NONE)
HDRFAM(c11_hdr_auth_list, true, L(F(T("max-age=60\x01\x01must-revalidate", "max-age=60\x01\x01\x01ust-revalidate"))), NONE)
HDRFAM(c11_hdr_auth_nocache, true, L(F(T("no-cache\x01\x01", "no-cache\x01\x01\x01"))), NONE)
HDRFAM(c11_hdr_auth_smaxage, true, L(F(T("s-maxage\x01\x01", "\x01-maxage\x01\x01"))), NONE)

// ================================================================== K3
extern "C" void c11_request_veto(void)
{
    vf_quiet();
    AnyP::UriScheme::Init();
    HttpRequest *req = rawObject<HttpRequest>();
    const unsigned m = vf_range(Http::METHOD_NONE + 1, Http::METHOD_ENUM_END - 2, "method"); // every registered method
    ::new (&req->method) HttpRequestMethod(static_cast<Http::MethodType>(m));
    ::new (&req->url) AnyP::Uri;
    req->url.scheme_ = AnyP::UriScheme(vf_concretize(vf_bool("https")) ? AnyP::PROTO_HTTPS : AnyP::PROTO_HTTP);
    HttpHdrCc *cc = vf_concretize(vf_bool("req_has_cc")) ? symbolicCc("req_cc", false) : nullptr;
    req->cache_control = cc;
    req->flags.hostVerified = vf_bool("hostVerified");
    req->flags.intercepted = vf_bool("intercepted");
    req->flags.interceptTproxy = vf_bool("interceptTproxy");
    const bool ignoreCc = vf_bool("ignoreCc"); // http_port ignore-cc (not a default setting)
    req->flags.ignoreCc = ignoreCc;
    const bool cachable = req->maybeCacheable();
    vf_observe("cachable", cachable);
    if (!ignoreCc && ccHas(cc, CC_NO_STORE)) {
        vf_assert(!cachable, "a request with Cache-Control: no-store is vetoed for caching");
        vf_reach("request-no-store");
    }
    reachEither(cachable, "cachable", "vetoed");
    WITNESS_POINT();
}
