// C21: HTTP/1 request parsing is independent of how the bytes arrive.
// The real Http1::RequestParser is driven exactly as ConnStateData::parseHttpRequest() drives it
// (parse(inBuf); inBuf = remaining(); append the next segment; parse again while needsMoreData()),
// once with the whole input in one piece and once per split point (thorough: per pair of split points),
// and the outcomes are compared. Oracle = the implementation on unsegmented input (differential).
#include "http1.h"
#include "http/one/RequestParser.h"

struct Outcome {
    bool ok, more;
    int status, methodId, proto;
    unsigned major, minor, consumed;
    SBuf methodImage, uri, mime;
};

// segments: [0,s1) [s1,s2) [s2,n); empty segments produce no read event
static Outcome drive(const uint8_t *in, const unsigned n, const unsigned s1, const unsigned s2)
{
    Http1::RequestParser hp;
    SBuf inBuf;
    unsigned delivered = 0;
    const unsigned cuts[3] = {s1, s2, n};
    Outcome o;
    o.ok = false;
    for (int k = 0; k < 3; ++k) {
        if (cuts[k] == delivered && !(k == 2 && n == 0))
            continue;
        inBuf.append(reinterpret_cast<const char *>(in) + delivered, cuts[k] - delivered);
        delivered = cuts[k];
        o.ok = hp.parse(inBuf);
        inBuf = hp.remaining(); // "sync the buffers after parsing"
        if (!hp.needsMoreData())
            break;
    }
    o.more = hp.needsMoreData();
    o.status = hp.parseStatusCode;
    o.methodId = hp.method().id();
    o.methodImage = hp.method().image();
    o.uri = hp.requestUri();
    o.proto = hp.messageProtocol().protocol;
    o.major = hp.messageProtocol().major;
    o.minor = hp.messageProtocol().minor;
    o.mime = hp.mimeHeader();
    o.consumed = delivered - inBuf.length();
    return o;
}

static void same(const Outcome &a, const Outcome &b)
{
    vf_assert(a.more == b.more, "segmented and one-shot parse agree on needs-more-data");
    vf_assert(a.ok == b.ok, "segmented and one-shot parse agree on success");
    // after a rejection ConnStateData::parseHttpRequest() discards the whole buffer, so the consumed length is
    // part of the outcome only while the parser wants more data or has accepted the message
    if (a.more || a.ok)
        vf_assert(a.consumed == b.consumed, "segmented and one-shot parse consume the same number of bytes");
    if (!a.more) {
        vf_assert(a.status == b.status, "same parse status code");
    }
    if (a.ok) {
        vf_assert(a.methodId == b.methodId && sbufEq(a.methodImage, b.methodImage), "same method");
        vf_assert(sbufEq(a.uri, b.uri), "same request-target");
        vf_assert(a.proto == b.proto && a.major == b.major && a.minor == b.minor, "same protocol version");
        vf_assert(sbufEq(a.mime, b.mime), "same header block");
    }
}

static void check(const uint8_t *in, const unsigned n)
{
    const Outcome whole = drive(in, n, n, n);
    vf_observe("ok", whole.ok); vf_observe("more", whole.more); vf_observe("status", whole.status);
    vf_observe("consumed", whole.consumed); vf_observe("method", whole.methodId); vf_observe("uri", sbufHash(whole.uri));
    vf_observe("mime", sbufHash(whole.mime)); vf_observe("ver", whole.major * 10 + whole.minor);
    for (unsigned s = 1; s < n; ++s) {
        same(drive(in, n, s, s), whole);
#ifdef VF_THOROUGH
        for (unsigned t = s + 1; t < n; ++t)
            same(drive(in, n, s, t), whole);
#endif
    }
    vf_reach(whole.more ? "more" : whole.ok ? "ok" : "error");
    WITNESS_POINT();
}

static int relaxedSetting()
{
#ifdef VF_THOROUGH
    const int r = (int)vf_range(0, 2, "relaxed") - 1; // -1, 0, 1
#else
    const int r = (int)vf_range(0, 1, "relaxed");
#endif
    return (int)vf_concretize((uint64_t)(r + 1)) - 1;
}

#define FAMILY(fn, lit, maxhdr) extern "C" void fn(void) { \
    http1Config(relaxedSetting(), maxhdr, 65536); \
    uint8_t in[sizeof(lit)]; const unsigned n = VF_FILL(in, lit, "b"); check(in, n); }

// request-line delimiters and a request-target byte
FAMILY(c21_delims, "GET\x01\x01\x01HTTP/1.1\r\n\r\n", 65536)
// everything after the version: CRLF CRLF, LF LF, CR CR LF, garbage ...
FAMILY(c21_line_end, "GET / HTTP/1.1\x01\x01\x01\x01", 65536)
// leading empty lines / garbage before the request line, and the final terminator
FAMILY(c21_leading, "\x01\x01GET / HTTP/1.0\r\n\x01\n", 65536)
// header block with a possible obs-fold / bare CR / bare LF in the middle of a field
FAMILY(c21_fold, "GET / HTTP/1.1\r\nA:b\x01\x01\x01" "c\r\n\r\n", 65536)
// HTTP/0.9 style and the version token
FAMILY(c21_version, "GET /\x01HTTP/\x01.\x01\r\n\r\n", 65536)
// method bytes
FAMILY(c21_method, "\x01\x01T / HTTP/1.1\r\nH: v\r\n\r\n", 65536)
#ifdef VF_THOROUGH
FAMILY(c21_delims2, "GET\x01\x01/\x01\x01HTTP/1.1\x01\n\r\n", 65536)
FAMILY(c21_fold2, "GET / HTTP/1.1\r\nA:b\x01\x01\x01\x01" "c\r\n\x01\n", 65536)
#endif

// header size limit close to the message size: limit symbolic in [8,44]
extern "C" void c21_limit(void)
{
    const unsigned lim = vf_range(8, 44, "maxRequestHeaderSize");
    http1Config(relaxedSetting(), lim, 65536);
    static const char lit[] = "GET /abcdefgh HTTP/1.1\x01\nHost: x\r\n\x01\n";
    uint8_t in[sizeof(lit)]; const unsigned n = VF_FILL(in, lit, "b"); check(in, n);
}

// short fully symbolic inputs
#ifdef VF_THOROUGH
#define NFULL 5
#else
#define NFULL 4
#endif
extern "C" void c21_any(void)
{
    http1Config(relaxedSetting(), 65536, 65536);
    const unsigned n = (unsigned)vf_concretize(vf_range(0, NFULL, "len"));
    uint8_t in[NFULL + 1];
    for (unsigned i = 0; i < n; ++i) in[i] = vf_nondet_u8("b");
    check(in, n);
}
