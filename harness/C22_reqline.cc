// C22: request-line acceptance matches the HTTP grammar.
// The real Http1::RequestParser::parse() is run on a byte string and its verdict (accepted / rejected / needs more
// data) and the extracted method, request-target and version are compared with an independent recogniser written
// below from RFC 9112 section 3 (request-line = method SP request-target SP HTTP-version, then CRLF), RFC 9110
// (token), RFC 3986 section 2 (the characters a URI may consist of) and RFC 1945 (HTTP/0.9 simple request
// "GET" SP target CRLF), plus - only when relaxed_header_parser is on - the tolerances Squid documents in
// http/one/Parser.cc, RequestParser.cc and RequestMethod.cc (listed at relaxed-mode places marked [Tn] below).
//
// Symbolic: the bytes marked \x01 in each family's skeleton (any of the 256 values), relaxed_header_parser.
// Oracle: recognise(). It shares no code with Squid: own character tables, a forward scan, no Tokenizer/CharacterSet.
// Modelled at character level: request-target = 1*(URI character); which of the four target forms it is, is decided
// later by AnyP::Uri::parse() and is not part of this check.
#include "http1.h"
#include "http/one/RequestParser.h"

enum { V_MORE, V_REJECT, V_ACCEPT };
struct Ref {
    int verdict;
    bool emptyFirstLine;       // strict mode and the input starts with LF
    bool zeroVersion;          // the line ends in an HTTP-version token that Squid maps to major version 0
    unsigned lineEnd;          // index of the LF terminating the request line
    unsigned mB, mE, tB, tE;   // method and target spans
    unsigned major, minor;
    bool get;                  // method is GET
    int status;                // expected status of a rejection
};

// ---- character classes, built from the RFC text (not from CharacterSet)
static uint8_t T_TCHAR[256], T_URI[256], T_RTARGET[256], T_RDELIM[256];
static void tables()
{
    static bool done = false;
    if (done) return;
    done = true;
    const char *alnum = "0123456789abcdefghijklmnopqrstuvwxyzABCDEFGHIJKLMNOPQRSTUVWXYZ";
    for (const char *p = alnum; *p; ++p) T_TCHAR[(uint8_t)*p] = T_URI[(uint8_t)*p] = 1;
    for (const char *p = "!#$%&'*+-.^_`|~"; *p; ++p) T_TCHAR[(uint8_t)*p] = 1;          // RFC 9110 5.6.2 tchar
    for (const char *p = "-._~" ":/?#[]@" "!$&'()*+,;=" "%"; *p; ++p) T_URI[(uint8_t)*p] = 1; // RFC 3986 2.2, 2.3, 2.1
    // [T1] relaxed: SP, HTAB, VT, FF and bare CR are whitespace between request-line fields (RFC 9112 2.2)
    for (const char *p = " \t\x0b\x0c\r"; *p; ++p) T_RDELIM[(uint8_t)*p] = 1;
    // [T2] relaxed: the target may also contain that whitespace, the RFC 2396 "unwise" characters and bytes >= 0x80
    for (unsigned c = 0; c < 256; ++c) T_RTARGET[c] = T_URI[c] || T_RDELIM[c] || c >= 128;
    for (const char *p = "\"\\|^<>`{}"; *p; ++p) T_RTARGET[(uint8_t)*p] = 1;
}
static inline bool isDigit(uint8_t c) { return c >= '0' && c <= '9'; }
static inline bool isDelim(uint8_t c, bool relaxed) { return relaxed ? T_RDELIM[c] : c == ' '; }
static inline bool isTarget(uint8_t c, bool relaxed) { return relaxed ? T_RTARGET[c] : T_URI[c]; }
static inline uint8_t up(uint8_t c) { return (c >= 'a' && c <= 'z') ? c - 32 : c; }

static const unsigned MaxMethod = 32;       // Squid's documented method length limit
static const unsigned MaxTarget = 64 * 1024; // Squid's URI length limit (String::RawSizeMaxXXX())

static Ref recognise(const uint8_t *in, const unsigned n, const bool relaxed)
{
    tables();
    Ref r = {};
    r.verdict = V_REJECT;
    r.status = 400;
    unsigned p = 0;
    // [T3] relaxed: empty lines (LF or CRLF) before the request line are ignored (RFC 9112 2.2)
    if (relaxed)
        while (p < n && (in[p] == '\n' || (in[p] == '\r' && p + 1 < n && in[p + 1] == '\n')))
            ++p;
    unsigned e = p;
    while (e < n && in[e] != '\n') ++e;
    if (e == n) { r.verdict = V_MORE; return r; }      // no complete line yet
    r.lineEnd = e;
    if (e == p) { r.emptyFirstLine = true; return r; }  // strict mode only: empty line instead of a request line
    // line terminator: CRLF; [T4] relaxed: bare LF and any number of CRs before the LF
    unsigned le = e;
    if (relaxed) {
        while (le > p && in[le - 1] == '\r') --le;
    } else {
        if (in[le - 1] != '\r') return r;
        --le;
    }
    // method = token, at most 32 characters
    unsigned m = p;
    while (m < le && T_TCHAR[in[m]]) ++m;
    if (m == p || m - p > MaxMethod) return r;
    r.mB = p; r.mE = m;
    // [T5] relaxed: known method names are recognised case-insensitively
    r.get = m - p == 3 && (relaxed ? (up(in[p]) == 'G' && up(in[p + 1]) == 'E' && up(in[p + 2]) == 'T')
                                   : (in[p] == 'G' && in[p + 1] == 'E' && in[p + 2] == 'T'));
    // single SP; [T1] relaxed: one or more whitespace characters
    unsigned t = m;
    while (t < le && isDelim(in[t], relaxed)) ++t;
    if (t == m || (!relaxed && t - m != 1)) return r;
    r.tB = t;
    // does the line end in an HTTP-version token?  "HTTP/" 1*DIGIT "." 1*DIGIT, inside [t, le)
    unsigned q = le, nMinor = 0, nMajor = 0;
    while (q > t && isDigit(in[q - 1])) { --q; ++nMinor; }
    bool version = nMinor && q > t && in[q - 1] == '.';
    if (version) {
        --q;
        while (q > t && isDigit(in[q - 1])) { --q; ++nMajor; }
        version = nMajor && q - t >= 5 && in[q - 5] == 'H' && in[q - 4] == 'T' && in[q - 3] == 'T' && in[q - 2] == 'P' && in[q - 1] == '/';
        q -= 5;
    }
    if (version) {
        if (nMajor != 1 || nMinor != 1) {
            // HTTP-version has exactly one digit on each side: not a request line. Squid treats such tokens as
            // version 0.0, i.e. like the next class.
            r.zeroVersion = true;
            return r;
        }
        r.major = in[q + 5] - '0';
        r.minor = in[le - 1] - '0';
        if (r.major == 0) r.zeroVersion = true;
        // single SP before the version; [T1] relaxed: one or more whitespace characters
        unsigned te = q;
        while (te > t && isDelim(in[te - 1], relaxed)) --te;
        if (te == q || (!relaxed && q - te != 1)) return r;
        r.tE = te;
    } else {
        // RFC 1945 simple request: only GET, target runs to the end of the line
        if (!r.get) return r;
        r.major = 0; r.minor = 9;
        r.tE = le;
    }
    if (r.tE == r.tB) return r;
    for (unsigned i = r.tB; i < r.tE; ++i)
        if (!isTarget(in[i], relaxed)) return r;
    if (r.tE - r.tB > MaxTarget) { r.status = 414; return r; }
    r.verdict = V_ACCEPT;
    return r;
}

static bool onlyZeroVersion = false; // set by c22_known_zero_version only
static void check(const uint8_t *in, const unsigned n, const int relaxedCfg)
{
    const bool relaxed = relaxedCfg != 0;
    const Ref r = recognise(in, n, relaxed);
    // KNOWN-FINDING candidate: a line with a well-formed method and first delimiter that ends in a version token
    // "HTTP/" 1*DIGIT "." 1*DIGIT whose major version is 0 or which has more than one digit on either side.
    // parseHttpVersionField() reports both as major version 0 and parseRequestFirstLine() then takes the line for a
    // version-less HTTP/0.9 one (http0()): it skips the "delimiter before protocol version" check and leaves the
    // delimiter in the target. Seen (all natively confirmed):
    //   strict  "GET /2HTTP/0.1\r\n"     accepted, target "/2", HTTP/0.1       (grammar: no SP before version -> reject)
    //   strict  "GET / HTTP/0.1\r\n"     rejected with 400                      (grammar: matches, version 0.1)
    //   relaxed "GET / HTTP/0.1\r\n"     accepted with target "/ " (with the SP) (grammar's target: "/")
    //   relaxed "GET / HTTP/1.1000\r\n"  accepted as HTTP/0.0 with target "/ "  (grammar: not an HTTP-version -> reject)
    // Compile with -DC22_KEEP_ZERO_VERSION to see them again.
    // The class is examined by its own entry (c22_known_zero_version), whose violations are listed in
    // known_findings.json; every other entry excludes exactly this class.
    vf_assume(r.zeroVersion == onlyZeroVersion);

    Http1::RequestParser hp;
    SBuf buf;
    buf.append(reinterpret_cast<const char *>(in), n);
    const bool ok = hp.parse(buf);
    const int st = hp.parseStatusCode;
    // the request line is accepted when the parser moved past it (scOkay); what follows the line (header block or
    // nothing) decides between ok and needs-more-data and is the subject of C21/C25
    const bool accepted = st == Http::scOkay;
    const bool more = !accepted && hp.needsMoreData();
    vf_observe("ok", ok); vf_observe("status", st); vf_observe("more", more);
    vf_observe("uri", sbufHash(hp.requestUri())); vf_observe("method", hp.method().id());

    if (onlyZeroVersion && accepted) {
        // Characterisation of the KNOWN finding, so that it cannot hide a different defect in the same input class: the
        // finding is that such a version token makes the parser report major version 0 (and then treat the line as a
        // version-less one). A line of this class accepted with any OTHER major version is a new violation: this message is
        // not among the ones listed for C22-zero-version in known_findings.json.
        vf_assert(hp.messageProtocol().major == 0, "zero-version class: an accepted line is reported with major version 0 (anything else is a NEW defect, not the known finding)");
    }
    vf_assert(accepted == (r.verdict == V_ACCEPT), "request line accepted iff it matches the grammar (plus documented tolerances in relaxed mode)");
    if (accepted) {
        const SBuf &img = hp.method().image();
        bool sameMethod = img.length() == r.mE - r.mB, sameNoCase = sameMethod;
        for (unsigned i = 0; sameNoCase && i < img.length(); ++i) {
            if (up(img[i]) != up(in[r.mB + i])) sameNoCase = false;
            if ((uint8_t)img[i] != in[r.mB + i]) sameMethod = false;
        }
        // [T5] relaxed: a known method spelled in another case is reported in its canonical spelling
        vf_assert(sameNoCase && (sameMethod || (relaxed && hp.method().id() != Http::METHOD_OTHER)), "extracted method is the grammar's method field");
        vf_assert((hp.method().id() == Http::METHOD_GET) == r.get, "GET is recognised as GET");
        const SBuf &uri = hp.requestUri();
        bool sameUri = uri.length() == r.tE - r.tB;
        for (unsigned i = 0; sameUri && i < uri.length(); ++i)
            if ((uint8_t)uri[i] != in[r.tB + i]) sameUri = false;
        vf_assert(sameUri, "extracted request-target is the grammar's request-target field");
        const AnyP::ProtocolVersion &v = hp.messageProtocol();
        vf_assert(v.protocol == AnyP::PROTO_HTTP && v.major == r.major && v.minor == r.minor, "extracted version is the grammar's HTTP-version (0.9 for a simple request)");
        if (r.major == 0) {
            vf_assert(ok && !hp.needsMoreData(), "an HTTP/0.9 request is complete at the end of its line");
            vf_assert(n - hp.remaining().length() == r.lineEnd + 1, "exactly the request line is consumed");
        }
        vf_reach(r.major ? "accept1x" : "accept09");
    } else if (r.verdict == V_MORE) {
        vf_assert(more && !ok, "without a complete line the parser asks for more data");
        vf_reach("more");
    } else {
        vf_assert(!ok, "a rejected line is not reported as parsed");
        // a complete line gets a definite verdict; the one exception observed (strict mode, input starting with LF:
        // the parser keeps asking for more data instead of rejecting) is not an acceptance and is left alone
        if (!r.emptyFirstLine) {
            vf_assert(!more, "a complete request line is either accepted or rejected");
            vf_assert(st == r.status, "rejection status is 400 (414 for an over-long target)");
        }
        vf_reach("reject");
    }
    WITNESS_POINT();
}

static int relaxedSetting()
{
#ifdef VF_THOROUGH
    const int r = (int)vf_range(0, 2, "relaxed") - 1; // -1 (warn), 0 (off), 1 (on)
#else
    const int r = (int)vf_range(0, 1, "relaxed");
#endif
    return (int)vf_concretize((uint64_t)(r + 1)) - 1;
}

// One entry = a few skeletons (chosen by a concretised selector); every \x01 is a fully symbolic byte.
static void families(const char *const *lits, const unsigned count)
{
    const int rel = relaxedSetting();
    http1Config(rel, 1 << 20, 1 << 20);
    const char *lit = lits[vf_concretize(vf_range(0, count - 1, "skeleton"))];
    uint8_t in[80];
    const unsigned n = vf_fill(in, lit, strlen(lit), "b");
    check(in, n, rel);
}
#define FAMILIES(fn, ...) extern "C" void fn(void) { static const char *const l[] = {__VA_ARGS__}; families(l, sizeof(l) / sizeof(*l)); }

#ifdef VF_THOROUGH
#define X1 "\x01"
#else
#define X1
#endif
FAMILIES(c22_fields,
    "GET\x01\x01/x\x01\x01HTTP/1.1\r\n\r\n",            // both delimiters, two bytes each
    "PUT \x01\x01\x01" X1 " HTTP/1.1\r\n\r\n",          // request-target bytes
    "GET / \x01\x01TP\x01" "1.1\r\n\r\n",               // version name
    "ABCDEFGHIJKLMNOPQRSTUVWXYZabcde\x01\x01\x01" X1 "/ HTTP/1.1\r\n\r\n") // method lengths 31..35 against the 32-byte limit
FAMILIES(c22_method,
    "\x01\x01" X1 " / HTTP/1.1\r\n\r\n")                // method bytes (and its delimiter)
FAMILIES(c22_ends,
    "GET /" X1 "\x01HTTP/\x01.\x01\x01\n\r\n",          // delimiter before the version, both digits, byte before the LF
    "GET / HTTP/1.1\x01\x01\x01" X1 "\r\n",             // everything after the version
    "GET\x01\x01\x01\x01" X1)                           // HTTP/0.9 simple requests and everything else starting with GET
FAMILIES(c22_leading,
    "\x01\x01" X1 "GET / HTTP/1.0\r\n\r\n")             // leading empty lines / garbage
// KNOWN FINDING (known_findings.json, C22-zero-version): version tokens with major version 0 or several digits
extern "C" void c22_known_zero_version(void)
{
    onlyZeroVersion = true;
    static const char *const l[] = {"GET /\x01HTTP/\x01.\x01\r\n\r\n", "GET / HTTP/1.\x01\x01\r\n\r\n"};
    families(l, 2);
}
#ifdef VF_THOROUGH
FAMILIES(c22_http09,
    "\x01" "ET\x01/\x01\x01\x01\n",
    "get \x01\x01\x01\x01\n")
#endif

// single-character mutations (substitution by / insertion of any byte, deletion) at every position of valid lines
static const char *const validLines[] = {
    "GET / HTTP/1.1\r\n",
    "GET /a\r\n",
    // valid only with the relaxed tolerances
    "\r\n\nget\t/ \x0b HTTP/1.1\r\r\n",
#ifdef VF_THOROUGH
    "M-x /;p HTTP/2.0\r\n",
    "Z!z /a?b=c&d=%7e HTTP/1.0\r\n",
    "OPTIONS * HTTP/1.1\r\n",
    "CONNECT h:443 HTTP/1.1\r\n",
    "GET http://h/%7e HTTP/1.1\r\n",
    "PUT /a b|\x80 HTTP/1.1\n",
#endif
};
// op: 0 none, 1 substitute, 2 insert, 3 delete
static void mutate(const unsigned opLo, const unsigned opHi)
{
    const int rel = relaxedSetting();
    http1Config(rel, 1 << 20, 1 << 20);
    const unsigned li = (unsigned)vf_concretize(vf_range(0, sizeof(validLines) / sizeof(*validLines) - 1, "line"));
    const char *l = validLines[li];
    const unsigned len = strlen(l);
    const unsigned op = (unsigned)vf_concretize(vf_range(opLo, opHi, "op"));
    const unsigned pos = op ? (unsigned)vf_concretize(vf_range(0, op == 2 ? len : len - 1, "pos")) : 0;
    uint8_t in[64];
    unsigned n = 0;
    for (unsigned i = 0; i <= len; ++i) {
        if (op == 2 && i == pos) in[n++] = vf_nondet_u8("b");
        if (i == len) break;
        if (op == 1 && i == pos) in[n++] = vf_nondet_u8("b");
        else if (op == 3 && i == pos) continue;
        else in[n++] = (uint8_t)l[i];
    }
    in[n++] = '\r'; in[n++] = '\n';   // empty header block
    check(in, n, rel);
}
extern "C" void c22_mutate_subst(void) { mutate(0, 1); }
extern "C" void c22_mutate_insdel(void) { mutate(2, 3); }

// request-target length limit: '/' + 65534 or 65535 concrete characters + 1 (thorough: 2) symbolic bytes
#ifdef VF_THOROUGH
#define NLIM 2
#else
#define NLIM 1
#endif
extern "C" void c22_uri_limit(void)
{
    const int rel = relaxedSetting();
    http1Config(rel, 1 << 20, 1 << 20);
    static uint8_t in[MaxTarget + 64];
    const unsigned fill = (unsigned)vf_concretize(vf_range(MaxTarget - NLIM - 1, MaxTarget - NLIM, "fill"));
    unsigned n = 0;
    for (const char *p = "GET /"; *p; ++p) in[n++] = *p;
    for (unsigned i = 0; i < fill; ++i) in[n++] = 'a';
    for (unsigned i = 0; i < NLIM; ++i) in[n++] = vf_nondet_u8("b");
    for (const char *p = " HTTP/1.1\r\n\r\n"; *p; ++p) in[n++] = *p;
    check(in, n, rel);
}
