// C13 (kernel): a stored variant is served only to requests whose header fields named in Vary match; Vary: * is never served.
//
// Decided kernels (all real code, re-read from the repo on every run):
//  K1 the variant key ("vary mark"): httpMakeVaryMark()/assembleVaryKey() (src/http.cc) with the real HttpHeader::getList()/
//     getByName()/hasNamed(), strListGetItem(), SBuf::toLower(), rfc1738_escape_part() (lib/rfc1738.cc).
//  K2 the variant test of the hit path: varyEvaluateMatch() (src/client_side.cc), called by clientReplyContext::cacheHit(),
//     driven as cacheHit() drives it: first on the Vary marker object found under the plain URL key (must answer VARY_OTHER and
//     leave the mark in request->vary_headers, or VARY_CANCEL = miss; never "serve this"), then on the variant object;
//     and once on the variant object with a request that has no mark yet.
//     c13_value/c13_states/c13_names/c13_inject/c13_list: request R1 stores a variant (mem_obj->vary_headers = httpMakeVaryMark(R1,
//     reply), as HttpStateData::haveParsedReplyHeaders() does); request R2 looks it up. Asserted: varyEvaluateMatch() answers
//     VARY_MATCH ("this is the correct entity for this request") only if R1 and R2 agree -- absent/present, length, every
//     byte -- on every header field the stored reply's Vary certainly nominates.
//  K3 c13_star: HttpStateData::haveParsedReplyHeaders() (src/http.cc) on a reply whose Vary has a member "*": if the entry gets
//     a public key at all it is marked ENTRY_REVALIDATE_ALWAYS, and the real refreshCheckHTTP() (src/refresh.cc) -- the test
//     cacheHit() applies after VARY_MATCH -- then reports "stale, validate first" for every later request.
//
// Oracle = the property text over the inputs: the nominated names are read from the Vary text by a conservative reference
// reader (RFC 9110 5.6.1 list: split at ',', trim SP/HTAB; names case-insensitive) that only ever answers "name N is
// certainly nominated"/"'*' is certainly a member". Values are compared byte by byte (the only normalisation Squid applies to
// values -- joining several field lines of one name with ", " -- is not exercised: each request has at most one line per name).
#include "C13_env.h"
#include "client_side.h"
#include "refresh.h"
#include "enums.h"
#include "globals.h"

// ---- the header fields a Vary may nominate in these families
#define NPOOL 3
static const char *const poolName[NPOOL][2] = {   // [k][0]: canonical spelling, [k][1]: another spelling a client may use
    {"Accept-Encoding", "accept-encoding"},        // registered list header (HttpHeader::getList)
    {"User-Agent", "USER-AGENT"},                  // registered single-value header (HttpHeader::findEntry)
    {"X-V", "x-v"},                                // extension header (linear search by name, case-insensitive)
};

static uint8_t low(uint8_t c) { return (uint8_t)(c + ((uint8_t)((uint8_t)(c - 'A') < 26) << 5)); } // ASCII lower case, branch-free

// Conservative reference reader of a Vary field value: is `name` certainly a member? Items are separated by commas outside
// double quotes (a Vary member is a token and cannot contain a quote; a reader that pairs quotes is allowed to see one item
// there, so nothing is claimed about text inside quotes) and trimmed of SP/HTAB.
static bool refMember(const uint8_t *s, const unsigned n, const char *name)
{
    unsigned i = 0;
    while (i <= n) {
        unsigned b = i;
        bool quoted = false, sawQuote = false;
        for (; i < n; ++i) {
            if (s[i] == '"') { quoted = !quoted; sawQuote = true; }
            else if (quoted && s[i] == '\\') { if (i + 1 < n) ++i; }
            else if (!quoted && s[i] == ',') break;
        }
        unsigned e = i;
        ++i; // past the comma
        if (sawQuote) continue;
        while (b < e && (s[b] == ' ' || s[b] == '\t')) ++b;
        while (e > b && (s[e - 1] == ' ' || s[e - 1] == '\t')) --e;
        unsigned k = 0;
        while (b + k < e && name[k] && low(s[b + k]) == low((uint8_t)name[k])) ++k;
        if (b + k == e && !name[k] && k) return true;
    }
    return false;
}

// ---- templates: '\x01' = fully symbolic byte; '\x02' before a letter = that letter's case is symbolic
#define MAXT 64
struct Text { uint8_t b[MAXT]; unsigned n; };
static Text fill(const char *tmpl, const bool valueBytes)
{
    Text t; t.n = 0;
    for (const char *p = tmpl; *p; ++p) {
        if (*p == '\x01') {
            const uint8_t c = vf_nondet_u8("b");
            vf_assume(c != 0); // values are C strings inside HttpHeaderEntry (HttpHeader::parse() rejects NUL)
#ifdef WITNESS
            vf_assume(c == 'q'); // the vacuity twin only has to show that the end of the check is reachable: one value suffices
#endif
            if (!valueBytes) vf_assume(c != '\r' && c != '\n');
            t.b[t.n++] = c;
        } else if (*p == '\x02') {
            ++p;
            const uint8_t bit = vf_nondet_u8("case") & 0x20;
#ifdef WITNESS
            vf_assume(bit == 0);
#endif
            t.b[t.n++] = (uint8_t)((low((uint8_t)*p)) ^ bit ^ 0x20) ; // lower ^ 0x20 = upper; ^bit flips back
        } else
            t.b[t.n++] = (uint8_t)*p;
    }
    t.b[t.n] = 0;
    return t;
}

// one nominated-header slot of a request: absent, or present with the given value template
struct Slot { bool present; Text v; };
struct Req { Slot s[NPOOL]; };
static bool sameSlot(const Slot &a, const Slot &b)
{
    if (a.present != b.present) return false;
    if (!a.present) return true;
    if (a.v.n != b.v.n) return false;
    bool eq = true;
    for (unsigned i = 0; i < a.v.n; ++i) eq = eq && a.v.b[i] == b.v.b[i];
    return eq;
}

// alternatives of a slot: nullptr-terminated list of templates; "\x03" stands for "absent"
#define ABSENT "\x03"
static Slot pick(const char *const *alts, const char *what)
{
    unsigned n = 0;
    while (alts[n]) ++n;
    const char *t = alts[n > 1 ? vf_choose(n, what) : 0];
    Slot s;
    s.present = t[0] != '\x03';
    if (s.present) s.v = fill(t, true); else s.v.n = 0;
    return s;
}


// ---- a Vary header: one template, '\n' separates field lines (several lines = one list, RFC 9110 5.3)
struct Vary { Text line[3]; unsigned lines; Text joined; };
static Vary varyFrom(const char *tmpl)
{
    Vary v; v.lines = 0; v.joined.n = 0;
    char buf[MAXT];
    const char *p = tmpl;
    for (;;) {
        unsigned n = 0;
        while (*p && *p != '\n') buf[n++] = *p++;
        buf[n] = 0;
        Text &t = v.line[v.lines++];
        t = fill(buf, false);
        if (v.lines > 1) { v.joined.b[v.joined.n++] = ','; v.joined.b[v.joined.n++] = ' '; }
        for (unsigned i = 0; i < t.n; ++i) v.joined.b[v.joined.n++] = t.b[i];
        if (!*p) break;
        ++p;
    }
    return v;
}
static Vary pickVary(const char *const *alts, const char *what)
{
    unsigned n = 0;
    while (alts[n]) ++n;
    return varyFrom(alts[n > 1 ? vf_choose(n, what) : 0]);
}
static HttpReply *replyWith(const Vary &v)
{
    HttpReply *rep = new HttpReply;
    rep->sline.set(Http::ProtocolVersion(1, 1), Http::scOkay);
    rep->header.putStr(Http::HdrType::CONTENT_TYPE, "text/plain");
    for (unsigned k = 0; k < v.lines; ++k)  // as HttpHeader::parse() stores a Vary field line
        rep->header.addEntry(new HttpHeaderEntry(Http::HdrType::VARY, SBuf(), reinterpret_cast<const char *>(v.line[k].b)));
    return rep;
}

// HttpRequest is zeroed raw memory of the real size (its constructor chain needs the whole proxy); the members the kernels read
// are constructed here
static HttpRequest *request(const Req &r, const unsigned spelling)
{
    HttpRequest *req = rawObject<HttpRequest>();
    ::new (&req->method) HttpRequestMethod(Http::METHOD_GET);
    ::new (&req->header) HttpHeader(hoRequest);
    ::new (&req->vary_headers) SBuf();
    req->header.putStr(Http::HdrType::HOST, "h.x");                 // fields no Vary of these families nominates
    for (unsigned k = 0; k < NPOOL; ++k)
        if (r.s[k].present)
            addField(req->header, poolName[k][spelling], reinterpret_cast<const char *>(r.s[k].v.b));
    req->header.putStr(Http::HdrType::ACCEPT, "*/*");
    return req;
}

// StoreEntry/MemObject are zeroed raw memory with mem_obj, reply_, vary_headers, storeId_ set (store.cc is not linked)
static StoreEntry *entryWith(HttpReply *rep, const SBuf &mark)
{
    StoreEntry *e = rawObject<StoreEntry>();
    MemObject *mem = rawObject<MemObject>();
    ::new (&mem->storeId_) SBuf("http://h.x/p");
    ::new (&mem->method) HttpRequestMethod(Http::METHOD_GET);
    ::new (&mem->vary_headers) SBuf(mark);
    rawPointer(mem->reply_, rep);
    e->mem_obj = mem;
    e->lastModified_ = -1;
    return e;
}

static bool sbufSame(const SBuf &a, const SBuf &b)
{
    if (a.length() != b.length()) return false;
    bool eq = true;
    for (SBuf::size_type i = 0; i < a.length(); ++i) eq = eq && a[i] == b[i];
    return eq;
}
static bool isStar(const SBuf &m) { return m.length() == 1 && m[0] == '*'; }

struct Family {
    const char *const *vary1; // alternatives for the stored reply's Vary
    const char *const *vary2; // alternatives for the Vary of the marker object R2 meets first (nullptr: the same Vary)
    const char *const *r1[NPOOL]; // alternatives per nominated-field slot of the storing request
    const char *const *r2[NPOOL]; // ... of the later request
};

static void agree(const Vary &v1, const Req &r1, const Req &r2, const char *what)
{
    for (unsigned k = 0; k < NPOOL; ++k)
        if (refMember(v1.joined.b, v1.joined.n, poolName[k][0]))
            vf_assert(sameSlot(r1.s[k], r2.s[k]), what);
}

static bool onlyEmptyRegistered = false; // set by c13_known_empty_registered only
static void family(const Family &f)
{
    vf_quiet();
    const Vary v1 = pickVary(f.vary1, "vary1");
    HttpReply *rep1 = replyWith(v1), *rep2 = rep1;
    if (f.vary2) rep2 = replyWith(pickVary(f.vary2, "vary2"));
    Req r1, r2;
    for (unsigned k = 0; k < NPOOL; ++k) { r1.s[k] = pick(f.r1[k], "r1"); r2.s[k] = pick(f.r2[k], "r2"); }
    // KNOWN FINDING (known_findings.json, C13-empty-registered-header): a nominated *registered single-value* header field
    // (User-Agent here; likewise Origin, Cookie, Referer, Authorization ...) that is present with an EMPTY value in one request
    // and absent from the other gets the same mark: HttpHeader::getStrOrList() returns a copy of the entry's value and String's
    // copy constructor turns a zero-length String into an undefined one, which assembleVaryKey() takes for "absent" (extension
    // and list headers keep the difference: 'x-v=""' vs 'x-v'). Found by c13_states (thorough): Vary 'USER-agent,x-v', R1
    // without User-Agent, R2 with 'User-Agent:' -> VARY_MATCH. The class is examined by its own entry
    // (c13_known_empty_registered), every other entry excludes exactly this class.
    const bool emptyVsAbsent = r1.s[1].present != r2.s[1].present && (r1.s[1].present ? r1.s[1].v.n : r2.s[1].v.n) == 0;
    vf_assume(emptyVsAbsent == onlyEmptyRegistered);

    // R1 stores the variant: HttpStateData::haveParsedReplyHeaders() sets mem_obj->vary_headers = httpMakeVaryMark(request, reply)
    // and refuses to share the reply if that mark is empty
    const SBuf m1 = httpMakeVaryMark(request(r1, 0), rep1);
    vf_observe("m1len", m1.length());
    const bool star = refMember(v1.joined.b, v1.joined.n, "*");
    if (star)
        vf_assert(isStar(m1), "a Vary with a member '*' gives exactly the mark '*' (the value haveParsedReplyHeaders() tests for)");
    // (the converse is not demanded: Squid also reads FF '*' FF as '*', which only costs a revalidation)
    if (m1.isEmpty() || star) { // not shared (empty mark) / K3's subject
        vf_reach(star ? "star" : "no-mark");
        WITNESS_POINT();
        return;
    }
    StoreEntry *variant = entryWith(rep1, m1);
    StoreEntry *marker = entryWith(rep2, SBuf()); // StoreEntry::adjustVary(): the Vary text under the plain URL key, no mark of its own

    // R2, as clientReplyContext::cacheHit() handles it: the plain URL key finds the marker object ...
    HttpRequest *q = request(r2, 1);
    const int first = varyEvaluateMatch(marker, q);
    vf_observe("first", first);
    vf_assert(first == VARY_OTHER || first == VARY_CANCEL, "the Vary marker object itself is never the entity for a request");
    if (first == VARY_OTHER) {
        vf_assert(!q->vary_headers.isEmpty(), "VARY_OTHER leaves the mark for the second lookup in the request");
        // ... and the second lookup, keyed by URL + q->vary_headers, finds the variant exactly if the marks are equal (MD5 of the
        // key aside); varyEvaluateMatch() is asked about the variant either way
        const bool sameKey = sbufSame(q->vary_headers, m1);
        const int second = varyEvaluateMatch(variant, q);
        vf_observe("second", second); vf_observe("sameKey", sameKey);
        vf_assert(second == VARY_MATCH || second == VARY_CANCEL, "the second pass ends in a hit or a miss");
        if (second == VARY_MATCH || sameKey)
            agree(v1, r1, r2, "VARY_MATCH / equal variant keys => the requests agree on every header field nominated by the stored reply's Vary");
        reachEither(second == VARY_MATCH, "match", "other-variant");
    } else
        vf_reach("no-mark-2");
    // a request without a mark that meets the variant object directly (no marker object in between)
    HttpRequest *d = request(r2, 0);
    const int direct = varyEvaluateMatch(variant, d);
    vf_observe("direct", direct);
    vf_assert(direct == VARY_MATCH || direct == VARY_CANCEL, "a variant object is either the right entity or a miss");
    if (direct == VARY_MATCH)
        agree(v1, r1, r2, "VARY_MATCH on the variant object => the requests agree on every header field nominated by its Vary");
    WITNESS_POINT();
}

static const char *const none[] = { ABSENT, nullptr };
#ifdef VF_THOROUGH
#define T(quick, thorough) thorough
#else
#define T(quick, thorough) quick
#endif
#define SYM "\x01"
#define CS "\x02"

// values: one fully symbolic byte in each request's nominated field (thorough: also b vs b"22", b"b" vs "a"b, and the same
// through a registered list header)
extern "C" void c13_value(void)
{
    static const char *const vx[] = { "x-v", nullptr }, *const va[] = { "Accept-Encoding", nullptr };
    static const char *const a[] = { SYM, nullptr };
    static const char *const b[] = { SYM, T(nullptr, SYM "22"), nullptr };
    static const char *const c[] = { SYM "b", nullptr }, *const d[] = { "a" SYM, nullptr };
    Family f = { vx, nullptr, { none, none, a }, { none, none, b } };
#ifdef VF_THOROUGH
    switch (vf_choose(3, "which")) {
    case 1: f = Family{ va, nullptr, { a, none, none }, { b, none, none } }; break;
    case 2: f = Family{ vx, nullptr, { none, none, c }, { none, none, d } }; break;
    }
#endif
    family(f);
}

// KNOWN FINDING (known_findings.json, C13-empty-registered-header): Vary: User-Agent, the field absent in one request and
// present with an empty value in the other
extern "C" void c13_known_empty_registered(void)
{
    onlyEmptyRegistered = true;
    static const char *const vary[] = { "User-Agent", nullptr };
    static const char *const u[] = { ABSENT, "", nullptr };
    const Family f = { vary, nullptr, { none, u, none }, { none, u, none } };
    family(f);
}

// states: absent / empty / non-empty in both requests, two nominated fields (registered list header + extension header;
// thorough: also the registered single-value header), one Vary line or two
extern "C" void c13_states(void)
{
    static const char *const vary[] = { "accept-Encoding, X-v", "Accept-Encoding\nx-V", T(nullptr, "USER-agent,x-v"), nullptr };
    static const char *const a1[] = { ABSENT, "q", nullptr };
    static const char *const x1[] = { ABSENT, "", SYM, nullptr };
    static const char *const a2[] = { ABSENT, "", "q", nullptr };
    static const char *const x2[] = { ABSENT, "q", T(nullptr, ""), nullptr };
    const Family f = { vary, nullptr, { a1, T(none, a1), x1 }, { a2, T(none, a2), x2 } };
    family(f);
}

// names: order, repetition, case; the marker object R2 meets may carry another Vary than the stored variant (the origin
// changed it in between)
extern "C" void c13_names(void)
{
    // (a) symbolic case of one letter of the Vary (thorough: two), same Vary for the variant and the marker object
    static const char *const cased[] = { CS "x-v, user-agent", "User-" CS "Agent," T("", CS) "x-v", T(nullptr, CS "x-v, X-" CS "V"), nullptr };
    static const char *const q[] = { "q", nullptr }, *const aq[] = { ABSENT, "q", nullptr }, *const qr[] = { "q", "r", nullptr };
    // (b) the marker object carries another Vary than the stored variant
    static const char *const plain[] = { "x-v, User-Agent", "user-agent,X-V", "x-v, X-V", "X-v", T(nullptr, "user-agent"), T(nullptr, "x-v\nuser-agent"), nullptr };
    static const char *const u[] = { ABSENT, "q", T(nullptr, ""), nullptr };
    static const char *const x[] = { ABSENT, "q", T(nullptr, "r"), nullptr };
    Family f = { cased, nullptr, { none, aq, q }, { none, aq, qr } };
    if (vf_choose(2, "which")) f = Family{ plain, plain, { none, u, x }, { none, x, u } };
    family(f);
}

// a value that tries to continue the mark (quote, separator, the next name) or to look like an escaped value
extern "C" void c13_inject(void)
{
    static const char *const v1[] = { "x-v, accept-encoding", nullptr };
    static const char *const v2[] = { "x-v", nullptr };
    static const char *const one[] = { "1", nullptr }, *const two[] = { "2", nullptr };
    static const char *const inj[] = { "1" SYM ", accept-encoding=" T("\"", SYM) "2", nullptr };
    static const char *const sp[] = { "\"", " ", "%", T(nullptr, "a"), nullptr };
    static const char *const esc[] = { SYM "22", SYM "20", T(nullptr, SYM "25"), T(nullptr, "%" SYM "2"), nullptr };
    static const char *const tail1[] = { "1\", x-v=\"2", nullptr }, *const three[] = { "3", nullptr };
    static const char *const tail2[] = { "2" SYM ", x-v=\"3", nullptr };
    static const char *const vv[] = { "accept-encoding, x-v", nullptr };
    Family f = { v1, v2, { two, none, one }, { none, none, inj } };
    switch (vf_choose(3, "which")) {
    case 1: f = Family{ v2, nullptr, { none, none, sp }, { none, none, esc } }; break;
    // same Vary, same names: a="1\", x-v=\"2" x="3"  against  a="1" x="2\", x-v=\"3"
    case 2: f = Family{ vv, nullptr, { tail1, none, three }, { one, none, tail2 } }; break;
    }
    family(f);
}

// list syntax: two fully symbolic bytes (any but NUL, CR, LF) between two names / around '*'
extern "C" void c13_list(void)
{
    static const char *const vary[] = { "accept-encoding" SYM SYM "x-v", "x-v" SYM "*", T(nullptr, "*" SYM "x-v"), T(nullptr, SYM "*" SYM), nullptr };
    static const char *const a1[] = { "a", nullptr }, *const x1[] = { "b", nullptr };
    static const char *const a2[] = { "a", "c", nullptr }, *const x2[] = { "b", "c", ABSENT, nullptr };
    const Family f = { vary, nullptr, { a1, none, x1 }, { a2, none, x2 } };
    family(f);
}

// ================================================================== K3
int neighbors_do_private_keys = 0; // globals.cc is not linked; 0 = no peers configured (default)
// recorders standing in for store.cc (not linked)
static int madePublic, madeNegative, madePrivate;
bool StoreEntry::makePublic(const KeyScope) { ++madePublic; return true; }
bool StoreEntry::cacheNegatively() { ++madeNegative; return true; }
void StoreEntry::makePrivate(const bool) { ++madePrivate; }
bool StoreEntry::timestampsSet() { return true; } // the harness sets the entry times itself
void StoreEntry::lock(const char *) {}
int StoreEntry::unlock(const char *) { return 1; }
StoreEntry *storeGetPublic(const char *, const HttpRequestMethod &) { return nullptr; }        // nothing cached for this URL yet
StoreEntry *storeGetPublicByRequest(HttpRequest *, const KeyScope) { return nullptr; }

extern "C" void c13_star(void)
{
    vf_quiet();
    Config.minimum_expiry_time = 60;       // default
    Config.maxStale = 604800;              // default max_stale 1 week
    Config.Refresh = nullptr;              // no refresh_pattern line
    Config.negativeTtl = 0;
    squid_curtime = 1000000000;
    static const char *const vary[] = { "*", "x-v, *", "*, x-v", "x-v\n*", "x-v" SYM "*", "*" SYM "x-v", T(nullptr, SYM "*" SYM), nullptr };
    const Vary v = pickVary(vary, "vary");
    HttpReply *rep = replyWith(v);
    const unsigned status = vf_range(200, 410, "status");   // the statuses Squid caches without further ado, and 404
    vf_assume(status == 200 || status == 203 || status == 300 || status == 301 || status == 410 || status == 404);
    rep->sline.set(Http::ProtocolVersion(1, 1), static_cast<Http::StatusCode>(status));
    rep->hdrCacheInit();

    Req r1; r1.s[0].present = r1.s[1].present = false; r1.s[2] = pick((const char *const[]){ ABSENT, "q", nullptr }, "r1");
    HttpRequest *req = request(r1, 0);
    StoreEntry *entry = entryWith(rep, SBuf());
    entry->flags = (1 << KEY_PRIVATE);     // a fresh private entry, received now, no explicit expiry
    entry->timestamp = squid_curtime;
    entry->expires = -1;
    HttpStateData *hs = rawObject<HttpStateData>(); // zeroed raw memory (the constructor needs a FwdState and a connection)
    hs->entry = entry;
    rawPointer(hs->request, req);
    hs->theFinalReply = rep;
    madePublic = madeNegative = madePrivate = 0;

    hs->HttpStateData::haveParsedReplyHeaders(); // qualified: the raw object has no vptr

    const bool shared = madePublic || madeNegative;
    const bool always = (entry->flags >> ENTRY_REVALIDATE_ALWAYS) & 1;
    vf_observe("shared", shared); vf_observe("flags", entry->flags);
    if (refMember(v.joined.b, v.joined.n, "*")) {
        vf_assert(!shared || always, "a reply with Vary: * gets a public key only together with ENTRY_REVALIDATE_ALWAYS");
        if (shared) {
            vf_assert(isStar(entry->mem_obj->vary_headers), "its variant mark is '*'");
            // a later request (any of the two spellings, nominated field present or not): after the VARY_* step cacheHit() asks
            // refreshCheckHTTP() and serves from cache only if it answers 0
            Req r2; r2.s[0].present = r2.s[1].present = false; r2.s[2] = pick((const char *const[]){ ABSENT, "q", nullptr }, "r2");
            HttpRequest *later = request(r2, 1);
            squid_curtime += vf_range(0, 1200, "later");
            const int vary = varyEvaluateMatch(entry, later);
            vf_assert(vary != VARY_NONE, "an entry with Vary is not taken for a non-varying one");
            vf_assert(refreshCheckHTTP(entry, later) != 0, "a stored Vary: * reply is never fresh: cacheHit() must validate it with the origin");
            vf_reach("star-stored");
        } else
            vf_reach("star-private");
    } else
        vf_reach("no-star");
    WITNESS_POINT();
}
