// C03 (kernel): no request smuggling -- the framing Squid derives from a client header block, and the framing it sends upstream,
// are the framing a strict RFC 9112 reading of the same bytes gives.
//
// Real code driven, in the order the client side and the server side drive it:
//   Http1::RequestParser::parse() (request line, header block isolation, cleanMimePrefix(), unfoldMime())
//   -> HttpRequest::parseHeader(parser) (HttpHeader::parse(): NUL, CR-only lines, bare CR, obs-fold in framing fields,
//      Http::ContentLengthInterpreter, Transfer-Encoding overrides Content-Length; hdrCacheInit(): content_length)
//   -> HttpRequest::checkEntityFraming()                                   [clientProcessRequest(): != scNone => error reply]
//   -> body expectation as clientProcessRequest() computes it: chunked = header.chunked(); body iff chunked || content_length > 0
//   -> flags.chunked_request as HttpStateData::sendRequest() sets it: body pipe present && content_length < 0
//   -> HttpStateData::httpBuildRequestHeader() (copyOneHeaderFromClientsideRequestToUpstreamRequest(), Squid's own Transfer-Encoding)
//
// Oracle: refFraming() below, written from RFC 9112 section 6.3 / RFC 9110 section 8.6, on the raw bytes of the header block:
//   bare CR and NUL read as SP and obs-fold as SP (the replacements RFC 9112 2.2/5.2 and RFC 9110 5.5 allow a recipient that does
//   not reject); a field line is token ":" OWS value OWS; Transfer-Encoding present => the request is chunked iff the codings are
//   exactly "chunked", otherwise unframable; else Content-Length: every value (list elements included) 1*DIGIT and all equal =>
//   that length, otherwise unframable; neither => no body.
// Asserted when Squid accepts the request (everything else is a rejection, which the property allows):
//   (S) the reference can frame the message, and Squid's chunked/length verdict is the reference's
//   (F) the upstream header has at most one Content-Length, never Content-Length and Transfer-Encoding together,
//       Transfer-Encoding only as a single "chunked"; it is chunked iff the reference says chunked, and otherwise its
//       Content-Length (absent = 0) is the reference length
//   (R) a bare CR inside a Content-Length/Transfer-Encoding field line => the request is rejected (asserted in every case)
//   (A) guard: a block whose framing fields are plainly written (single line, no CR/NUL, one 1*DIGIT value or "chunked") is accepted
#include "C04_fwd.h"
#include "http/one/RequestParser.h"

#ifdef VF_THOROUGH
#define T(q, t) t
#else
#define T(q, t) q
#endif
#define MAXB 256
#define MAXV 8

struct RefFr {
    bool reject, chunked, plain;
    bool crInFraming;   // a bare CR (not the CR of the line's CRLF) inside a Content-Length / Transfer-Encoding field line
    uint64_t len;
};

// Whitespace at the edges of a field value and of a list element. RFC 9110 says OWS = SP / HTAB; Squid trims the C-locale isspace()
// class there (HttpHeaderEntry::parse(), ContentLengthInterpreter), i.e. also VT and FF (CR has been read as SP, LF ends the line).
// The C25/C26 oracles accept that reading; this one follows them (stated in the spec's assumptions).
static inline bool refWsp(const uint8_t c) { return c == ' ' || c == '\t' || c == '\v' || c == '\f'; }

static bool refIsName(const uint8_t *p, const unsigned n, const char *lit)
{
    const unsigned l = strlen(lit);
    return n == l && refEqNoCase(p, (const uint8_t *)lit, l);
}

// one list element [a,b) of a Content-Length value, OWS already trimmed: 1*DIGIT (at most 18 digits in these families)
static bool refDecimal(const uint8_t *w, unsigned a, const unsigned b, uint64_t &v)
{
    if (a >= b) return false;
    vf_assert(b - a <= 18, "harness bound: Content-Length values of at most 18 digits");
    v = 0;
    for (; a < b; ++a) {
        if (!((uint8_t)(w[a] - '0') < 10)) return false;
        v = v * 10 + (w[a] - '0');
    }
    return true;
}

static RefFr refFraming(const uint8_t *in, const unsigned n)
{
    RefFr r = {false, false, true, false, 0};
    static uint8_t w[MAXB], wasCr[MAXB];
    unsigned m = 0;
    // normalisation: NUL -> SP, bare CR -> SP, obs-fold ([CR] LF 1*(SP/HT)) -> SP
    for (unsigned i = 0; i < n; ++i) {
        uint8_t c = in[i];
        bool bareCr = false;
        if (c == 0) { c = ' '; r.plain = false; }
        else if (c == '\r' && !(i + 1 < n && in[i + 1] == '\n')) { c = ' '; r.plain = false; bareCr = true; }
        else if (c == '\n' && i + 1 < n && (in[i + 1] == ' ' || in[i + 1] == '\t')) {
            while (m > 0 && (w[m - 1] == '\r' || wasCr[m - 1])) --m;   // CRs in front of a fold's LF belong to the fold (Http1::Parser::unfoldMime())
            while (i + 1 < n && (in[i + 1] == ' ' || in[i + 1] == '\t')) ++i;
            c = ' '; r.plain = false;
        }
        wasCr[m] = bareCr;
        w[m++] = c;
    }
    unsigned nCl = 0, nTe = 0, teCodings = 0;
    bool teChunkedOnly = true, clOk = true;
    uint64_t clValue = 0;
    bool haveCl = false;
    for (unsigned ls = 0; ls < m;) {
        unsigned le = ls;
        while (le < m && w[le] != '\n') ++le;
        unsigned ce = le;                                  // line content end
        if (ce > ls && w[ce - 1] == '\r') --ce;
        if (ce > ls) {
            unsigned c = ls;
            while (c < ce && w[c] != ':') ++c;
            if (c == ce || c == ls) { r.reject = true; return r; }             // no colon / empty name
            for (unsigned i = ls; i < c; ++i) if (!refTchar(w[i])) { r.reject = true; return r; }   // incl. whitespace before ':'
            unsigned vs = c + 1, ve = ce;
            while (vs < ve && refWsp(w[vs])) ++vs;
            while (vs < ve && refWsp(w[ve - 1])) --ve;
            const bool isCl = refIsName(w + ls, c - ls, "Content-Length"), isTe = refIsName(w + ls, c - ls, "Transfer-Encoding");
            if (isCl || isTe) {
                if (isCl) ++nCl; else ++nTe;
                for (unsigned i = ls; i < ce; ++i) if (wasCr[i]) r.crInFraming = true;
                bool list = false;
                for (unsigned i = vs; i < ve; ++i) if (w[i] == ',') list = true;
                if (list) r.plain = false;
                unsigned elements = 0;
                for (unsigned s = vs;;) {
                    unsigned e = s;
                    while (e < ve && w[e] != ',') ++e;
                    unsigned a = s, b = e;
                    while (a < b && refWsp(w[a])) ++a;
                    while (a < b && refWsp(w[b - 1])) --b;
                    if (a < b || !list) {                   // empty list elements are ignored (RFC 9110 5.6.1.2)
                        ++elements;
                        if (isCl) {
                            uint64_t v;
                            if (!refDecimal(w, a, b, v)) clOk = false;
                            else if (!haveCl) { haveCl = true; clValue = v; }
                            else if (clValue != v) clOk = false;
                        } else {
                            ++teCodings;
                            if (!refIsName(w + a, b - a, "chunked")) teChunkedOnly = false;
                        }
                    }
                    if (e >= ve) break;
                    s = e + 1;
                }
                // a Content-Length field made of list separators only ("Content-Length: ,") states no length: malformed
                if (isCl && !elements) clOk = false;
            }
        }
        ls = le + 1;
    }
    if (nCl > 1 || nTe > 1) r.plain = false;
    if (nTe) {
        if (teCodings == 1 && teChunkedOnly) r.chunked = true;
        else r.reject = true;
    } else if (nCl) {
        if (clOk && haveCl) r.len = clValue;
        else r.reject = true;
    }
    return r;
}

// template bytes: \x03 = fresh symbolic byte (any value but LF: line structure is concrete), \x04 = symbolic digit, \x02 = symbolic tchar
static unsigned put(uint8_t *out, unsigned n, const char *tmpl)
{
    for (; *tmpl; ++tmpl) {
        vf_assert(n < MAXB, "harness: block fits");
        uint8_t c = (uint8_t)*tmpl;
        if (c == 3) { c = vf_nondet_u8("b"); vf_assume(c != '\n'); }
        else if (c == 4) { c = vf_nondet_u8("d"); vf_assume((uint8_t)(c - '0') < 10); }
        else if (c == 2) { c = vf_nondet_u8("n"); vf_assume(refTchar(c)); }
        out[n++] = c;
    }
    return n;
}

static uint64_t outDecimal(const HttpHeaderEntry *e, bool &ok)
{
    uint64_t v = 0;
    ok = e->value.size() >= 1 && e->value.size() <= 18;
    for (size_t i = 0; ok && i < e->value.size(); ++i) {
        const uint8_t c = (uint8_t)e->value[i];
        if ((uint8_t)(c - '0') < 10) v = v * 10 + (c - '0'); else ok = false;
    }
    return v;
}

static void check(const char *headers, const int relaxed)
{
    fwdConfig(relaxed);
    Config.maxRequestHeaderSize = 65536;
    static uint8_t msg[MAXB];
    unsigned n = put(msg, 0, "POST /p HTTP/1.1\r\n");
    const unsigned hs = n;
    n = put(msg, n, headers);
    n = put(msg, n, "\r\n");
    const unsigned he = n;                                  // the header block ends here: what follows belongs to the body or the next message
    n = put(msg, n, "GET /next HTTP/1.1\r\n\r\n");

    const RefFr ref = refFraming(msg + hs, he - hs);
    // (A Content-Length of list separators only used to be dropped silently in relaxed mode, turning the request into one without a
    // body; repaired in /repo by 'fix: a Content-Length consisting of list separators only was silently dropped'. No exclusion:
    // the class is examined by c03_value, families 10 and 11.)

    // client side
    Http1::RequestParser hp;
    const bool parsedOk = hp.parse(SBuf(reinterpret_cast<const char *>(msg), n));
    bool accepted = false, chunked = false;
    int64_t bodyLen = 0;
    HttpRequest *req = nullptr;
    if (parsedOk) {
        vf_assert(hp.remaining().length() == n - he, "the request head ends at the first empty line: later bytes are not part of it");
        req = rawRequest(hp.method().id());
        req->http_ver = hp.messageProtocol();
        if (req->parseHeader(hp) && req->checkEntityFraming() == Http::scNone) {
            accepted = true;
            chunked = req->header.chunked();
            bodyLen = chunked ? -1 : (req->content_length > 0 ? req->content_length : 0);
        }
    }
    vf_observe("accepted", accepted); vf_observe("chunked", chunked); vf_observe("bodyLen", (uint64_t)bodyLen);

    // (R) the sanitation HttpHeader::parse() promises on top of the RFC minimum (same assertion as C25 makes on parse() alone)
    if (ref.crInFraming) vf_assert(!accepted, "a request with a bare CR inside Content-Length/Transfer-Encoding is rejected");
    if (!accepted) {
        if (ref.plain && !ref.reject) vf_assert(false, "guard: a request with plainly written framing fields is accepted");
        vf_reach("rejected");
        WITNESS_POINT();
        return;
    }
    // (S)
    vf_assert(!ref.reject, "an accepted request has framing a strict reading can determine");
    vf_assert(chunked == ref.chunked, "Squid reads the body as chunked iff the strict reading does");
    if (!chunked) vf_assert((uint64_t)bodyLen == ref.len, "the body length Squid will read is the strict reading's Content-Length");

    // server side
    Http::StateFlags flags;
    flags.toOrigin = true;
    flags.keepalive = true;
    const bool bodyPipe = chunked || req->content_length > 0;               // clientProcessRequest(): expectRequestBody()
    flags.chunked_request = bodyPipe && req->content_length < 0;            // HttpStateData::sendRequest()
    HttpHeader out(hoRequest);
    HttpStateData::httpBuildRequestHeader(req, nullptr, AccessLogEntryPointer(), &out, nullptr, flags);
    // (F)
    const unsigned cl = countName(out, "Content-Length"), te = countName(out, "Transfer-Encoding");
    vf_observe("cl", cl); vf_observe("te", te);
    vf_assert(cl <= 1, "at most one Content-Length is sent upstream");
    vf_assert(!(cl && te), "Content-Length and Transfer-Encoding are never sent together");
    vf_assert(te <= 1, "at most one Transfer-Encoding is sent upstream");
    if (te) vf_assert(valueIs(findName(out, "Transfer-Encoding"), "chunked"), "the Transfer-Encoding sent is exactly 'chunked'");
    vf_assert((te == 1) == ref.chunked, "the upstream request is chunked iff the strict reading of the client's request is");
    if (!ref.chunked) {
        if (cl) {
            bool ok;
            const uint64_t v = outDecimal(findName(out, "Content-Length"), ok);
            vf_assert(ok && v == ref.len, "the Content-Length sent upstream is the strict reading's length");
        } else
            vf_assert(ref.len == 0, "a request with a body is sent with its Content-Length");
    }
    reachIf(chunked, "accepted-chunked");
    reachIf(!chunked && bodyLen, "accepted-length");
    reachIf(!chunked && !bodyLen, "accepted-nobody");
    WITNESS_POINT();
}

static int relaxedSetting()
{
    const int r = (int)vf_range(T(1, 0), 2, "relaxed") - 1;     // quick: {0,1}; thorough: {-1,0,1}
    return (int)vf_concretize((uint64_t)(r + 1)) - 1;
}

#define B "\x03"
#define D "\x04"
static const char *const Families[] = {
    // 0 duplicate / conflicting / list Content-Length
    T("Host: h\r\nContent-Length: 1" B "\r\nContent-Length: 1" B "\r\n", "Host: h\r\nContent-Length:" B "1" B "\r\nContent-Length: 1" B B "\r\n"),
    // 1 Transfer-Encoding variants next to a Content-Length
    T("Content-Length: 5\r\nTransfer-Encoding:" B "chunked" B "\r\nHost: h\r\n", "Content-Length: 5\r\nTransfer-Encoding:" B "chunke" B B "\r\nHost: h\r\n"),
    // 2 the bytes between a framing field name and its value: whitespace before the colon, longer names, missing colon
    "Host: h\r\nTransfer-Encoding" B B T("", B) "chunked\r\nContent-Length: 5\r\n",
    // 3 obs-fold / new line after a framing field (the byte starting the next line), and a byte inside the continuation
    "Host: h\r\nContent-Length: 5\r\n" B B T("7", B) "\r\n",
    // 4 folded Transfer-Encoding value
    "Transfer-Encoding:" B "\r\n" B "chunked\r\nContent-Length: 5\r\n",
    // 5 line end of a framing field: bare CR, CR CR LF, NUL, trailing whitespace, garbage
    "Host: h\r\nContent-Length: 5" B B T("", B) "\nX: y\r\n",
    // 6 case-insensitive recognition of a second, conflicting Content-Length
    "Content-Length: 5\r\n" "\x02" "ontent-lengt" "\x02" ": 6\r\n",
    // 7 Connection naming a framing field cannot remove or smuggle it
    "Connection: " B "ontent-length, transfer-encoding\r\nContent-Length: 1" D "\r\n",
    // 8 the same with a chunked body
    "Connection: content-length, " B "ransfer-encoding\r\nTransfer-Encoding: chunked\r\nContent-Length: 1" D "\r\n",
    // 9 duplicate Transfer-Encoding
    "Transfer-Encoding: chunked\r\nTransfer-Encoding:" B B T("", B) "\r\n",
    // 10 Content-Length value: anything
    "Content-Length:" B B T("", B) "\r\n",
    // 11 a separator-only Content-Length field (the repaired class: ",", ",,", " ,") next to a valid one
    "Content-Length: 5\r\nContent-Length:" B B "\r\n",
};
static void family(const unsigned first, const unsigned count)
{
    const int relaxed = relaxedSetting();
    check(Families[first + (unsigned)vf_concretize(vf_range(0, count - 1, "family"))], relaxed);
}
extern "C" void c03_length(void) { family(0, 1); }
extern "C" void c03_te(void) { family(1, 2); }
extern "C" void c03_fold(void) { family(3, 2); }
extern "C" void c03_eol(void) { family(5, 1); }
extern "C" void c03_names(void) { family(6, 3); }
extern "C" void c03_te_dup(void) { family(9, 1); }
extern "C" void c03_value(void) { family(10, 2); }
