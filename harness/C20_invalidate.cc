// C20 (kernel): a successful unsafe request invalidates what was cached for its URL and for same-host URLs named in the
// response's Location / Content-Location.
// Decided kernel: Client::maybePurgeOthers() -> purgeEntriesByHeader() -> sameUrlHosts() (real src/clients/Client.cc),
// HttpRequestMethod::purgesOthers()/shouldInvalidate(), HttpRequest::effectiveRequestUri(), urlIsRelative(),
// AnyP::Uri::path()/addRelativePath()/absolute(), HttpHeader::putStr()/getStr().
// purgeEntriesByUrl() (client_side_reply.cc: storeKeyPublic(url, GET|HEAD) + Store::Root().evictIfFound()) is replaced by a
// recorder of the URL strings it is given: an entry cached under another URL string is not evicted.
//
// Model of "GET again" (the lookup side is real code): the client requests the URL T named by the header -- T = the
// header value resolved against the request URL as RFC 3986 section 5.2 prescribes (reference resolver below, written from
// the RFC) -- and Squid looks it up under HttpRequest::effectiveRequestUri() = AnyP::Uri::absolute() of the really parsed T.
// Oracle: if the method is unsafe (IANA registry) and the status is not an error (< 400), then
//   O1: the request's own URL (its lookup key) was handed to purgeEntriesByUrl();
//   O2: for Location / Content-Location value V made of visible ASCII: if T parses and names the request's host,
//       T's lookup key was handed to purgeEntriesByUrl().
// Symbolic: method, status, which header, the marked bytes of V.
// Known findings (known_findings.json) have their own entries c20_known_*; see onlyRawPurgeKeys / onlyUnsafeUnpurged.
#include "squid.h"
#include <sstream>
#include <functional>
#include <chrono>
#include <atomic>
#include <iostream>
#include <string>
#include <vector>
#include <list>
#include <map>
#include <unordered_map>
#include <memory>
#include <algorithm>
#include "debug/Stream.h"
#include "SquidString.h"
#include "sbuf/SBuf.h"
#include "base/RefCount.h"
#include "base/TextException.h"
#define private public
#define protected public
#include "clients/Client.h"
#include "HttpRequest.h"
#include "HttpReply.h"
#undef private
#undef protected
#include "anyp/Uri.h"
#include "ip/tools.h"
#include "StatHist.h"
#include "http1.h"
#include "C30_netmodel.h"   // numeric-only getaddrinfo/inet_ntop model (AnyP::Uri::host() asks whether the host is an IP address)
#include <new>

int Ip::EnableIpv6 = IPV6_ON;                  // ip/tools.cc (socket probing) is not linked
void StatHist::enumInit(unsigned int) {}       // per-header statistics histograms (StatHist.cc not linked)
void StatHist::count(double) {}

// ---- recorder standing in for client_side_reply.cc purgeEntriesByUrl()
#define MAXPURGE 8
static char *purgedUrl[MAXPURGE];
static unsigned purges = 0;
void purgeEntriesByUrl(HttpRequest *, const char *url)
{
    vf_assert(purges < MAXPURGE, "harness: purge recorder full");
    purgedUrl[purges++] = xstrdup(url);
}
static bool wasPurged(const char *u)
{
    for (unsigned i = 0; i < purges; ++i)
        if (!strcmp(purgedUrl[i], u)) return true;
    return false;
}

// ---- oracle part 1: which methods must invalidate. IANA method registry, column "Safe"; anything else is unsafe,
// including methods whose semantics are unknown (RFC 9111 section 4.4).
static bool registeredSafe(const int m)
{
    switch (m) {
    case Http::METHOD_GET: case Http::METHOD_HEAD: case Http::METHOD_OPTIONS: case Http::METHOD_TRACE:
    case Http::METHOD_PROPFIND: case Http::METHOD_REPORT: case Http::METHOD_SEARCH: case Http::METHOD_PRI:
        return true;
    default:
        return false;
    }
}

// ---- oracle part 2: RFC 3986 section 5.2 reference resolution against the fixed base http://h.x<BasePath>[?BaseQuery]
static const char *BasePath = "/p/q", *BaseQuery = nullptr;
struct Ref { const char *p; unsigned n; bool defined; };
static bool isAlpha(uint8_t c) { return (c >= 'a' && c <= 'z') || (c >= 'A' && c <= 'Z'); }
// RFC 3986: unreserved / gen-delims / sub-delims / "%"
static bool uriChar(uint8_t c)
{
    if (isAlpha(c) || (c >= '0' && c <= '9')) return true;
    switch (c) { case '-': case '.': case '_': case '~': case ':': case '/': case '?': case '#': case '[': case ']': case '@':
                 case '!': case '$': case '&': case '\'': case '(': case ')': case '*': case '+': case ',': case ';': case '=': case '%': return true; }
    return false;
}
static void put(char *out, unsigned &o, const char *s, unsigned n) { for (unsigned i = 0; i < n; ++i) out[o++] = s[i]; }
// 5.2.4 remove_dot_segments
static unsigned removeDots(const char *in, unsigned n, char *out)
{
    unsigned i = 0, o = 0;
    while (i < n) {
        const unsigned r = n - i; const char *s = in + i;
        if (r >= 3 && s[0] == '.' && s[1] == '.' && s[2] == '/') i += 3;
        else if (r >= 2 && s[0] == '.' && s[1] == '/') i += 2;
        else if (r >= 3 && s[0] == '/' && s[1] == '.' && s[2] == '/') i += 2;
        else if (r == 2 && s[0] == '/' && s[1] == '.') { i += 1; in = "/"; n = 1; i = 0; }
        else if ((r >= 4 && s[0] == '/' && s[1] == '.' && s[2] == '.' && s[3] == '/') || (r == 3 && s[0] == '/' && s[1] == '.' && s[2] == '.')) {
            const bool last = r == 3;
            while (o > 0 && out[o - 1] != '/') --o;   // remove the last output segment ...
            if (o > 0) --o;                           // ... and its preceding "/"
            if (last) { in = "/"; n = 1; i = 0; } else i += 3;
        } else if ((r == 1 && s[0] == '.') || (r == 2 && s[0] == '.' && s[1] == '.')) i = n;
        else {
            out[o++] = in[i++];                       // the first path segment including its initial "/" (if any)
            while (i < n && in[i] != '/') out[o++] = in[i++];
        }
    }
    return o;
}
// T = resolve(V); false when V is not a reference a client could turn into an http request-target (outside the oracle)
// Set by resolve(): classes of values for which Squid does not invalidate the named same-host URL. They are KNOWN FINDINGS
// (known_findings.json, C20-raw-purge-keys): examined only by the entry c20_known_raw_purge_keys, which is restricted to exactly
// these classes and keeps the strict assertion; every other entry excludes exactly these classes.
enum { kAuthoritySpelling, kEmptyPath, kSchemeCase, kFragment, kEncodedChar, kNetworkPath, kDotSegment, kQueryOnly, kClasses };
static bool known[kClasses];
static bool otherHost; // set by resolve(): the value's authority names a host other than the request's (nothing is required)
static bool onlyRawPurgeKeys = false;  // set by c20_known_raw_purge_keys only
static bool onlyUnsafeUnpurged = false; // set by c20_known_unsafe_methods only
static bool hasDotSegment(const char *p, const unsigned n)
{
    for (unsigned a = 0; a < n;) { // segments are separated by '/'
        unsigned b = a;
        while (b < n && p[b] != '/') ++b;
        if ((b - a == 1 && p[a] == '.') || (b - a == 2 && p[a] == '.' && p[a + 1] == '.')) return true;
        a = b + 1;
    }
    return false;
}
static bool resolve(const uint8_t *v, unsigned n, char *out)
{
    const char *s = reinterpret_cast<const char *>(v);
    for (unsigned i = 0; i < n; ++i) if (!uriChar(v[i])) return false;            // not a URI reference at all
    for (unsigned k = 0; k < kClasses; ++k) known[k] = false;
    for (unsigned i = 0; i < n; ++i) if (s[i] == '#') { n = i; known[kFragment] = true; break; } // the fragment is not sent
    Ref scheme = {nullptr, 0, false}, auth = {nullptr, 0, false}, path, query = {nullptr, 0, false};
    unsigned i = 0;
    if (n && isAlpha(v[0])) {
        unsigned k = 1;
        while (k < n && (isAlpha(v[k]) || (v[k] >= '0' && v[k] <= '9') || v[k] == '+' || v[k] == '-' || v[k] == '.')) ++k;
        if (k < n && s[k] == ':') { scheme = {s, k, true}; i = k + 1; }
    }
    if (i + 1 < n && s[i] == '/' && s[i + 1] == '/') {
        unsigned k = i + 2;
        while (k < n && s[k] != '/' && s[k] != '?') ++k;
        auth = {s + i + 2, k - (i + 2), true}; i = k;
    }
    { unsigned k = i; while (k < n && s[k] != '?') ++k; path = {s + i, k - i, true}; i = k; }
    if (i < n) query = {s + i + 1, n - i - 1, true};
    if (!scheme.defined && !auth.defined) // RFC 3986 4.2: the first segment of a relative-path reference cannot contain ':'
        for (unsigned k = 0; k < path.n && path.p[k] != '/'; ++k) if (path.p[k] == ':') return false;

    otherHost = false;
    if (auth.defined && !(auth.n == 3 && auth.p[0] == 'h' && auth.p[1] == '.' && auth.p[2] == 'x')) {
        unsigned st = 0;                                   // host = after the last '@', up to the next ':'
        for (unsigned k = 0; k < auth.n; ++k) if (auth.p[k] == '@') st = k + 1;
        unsigned en = st;
        while (en < auth.n && auth.p[en] != ':') ++en;
        const bool same = en - st == 3 && (auth.p[st] | 0x20) == 'h' && auth.p[st + 1] == '.' && (auth.p[st + 2] | 0x20) == 'x';
        known[kAuthoritySpelling] = same;                  // the request's host, spelled differently
        otherHost = !same;
    }
    known[kEmptyPath] = auth.defined && path.n == 0;
    for (unsigned k = 0; k < scheme.n; ++k) if (scheme.p[k] >= 'A' && scheme.p[k] <= 'Z') known[kSchemeCase] = true;
    if (scheme.defined) // the value is purged as written; the lookup key percent-encodes what AnyP::Uri's PathChars() lacks
        for (unsigned k = (unsigned)(path.p - s); k < n; ++k) if (s[k] == '?' || s[k] == '[' || s[k] == ']') known[kEncodedChar] = true;
    known[kNetworkPath] = !scheme.defined && auth.defined;
    known[kDotSegment] = hasDotSegment(path.p, path.n);
    known[kQueryOnly] = !scheme.defined && !auth.defined && path.n == 0 && query.defined;
    char merged[64]; unsigned mlen = 0;
    Ref tScheme = {"http", 4, true}, tAuth = {"h.x", 3, true}, tQuery = query;
    if (scheme.defined) {
        tScheme = scheme; tAuth = auth; put(merged, mlen, path.p, path.n);
    } else if (auth.defined) {
        tAuth = auth; put(merged, mlen, path.p, path.n);
    } else if (path.n == 0) {
        put(merged, mlen, BasePath, strlen(BasePath));
        if (!query.defined && BaseQuery) tQuery = {BaseQuery, (unsigned)strlen(BaseQuery), true};
    } else if (path.p[0] == '/') {
        put(merged, mlen, path.p, path.n);
    } else {
        unsigned keep = strlen(BasePath);
        while (keep > 0 && BasePath[keep - 1] != '/') --keep;   // 5.2.3 merge: all but the last segment of the base path
        put(merged, mlen, BasePath, keep); put(merged, mlen, path.p, path.n);
    }
    if (!tAuth.defined) return false;   // "scheme:path" without authority: not an http(s) URL
    unsigned o = 0;
    put(out, o, tScheme.p, tScheme.n); put(out, o, "://", 3); put(out, o, tAuth.p, tAuth.n);
    char clean[64];
    const unsigned clen = removeDots(merged, mlen, clean);
    put(out, o, clean, clen);
    if (tQuery.defined) { out[o++] = '?'; put(out, o, tQuery.p, tQuery.n); }
    out[o] = 0;
    return true;
}

// ---- the objects the kernel reads. Client (abstract), HttpRequest and HttpReply are zeroed raw memory of the real size
// with the members the kernel reads constructed in place; nothing else of them is touched by the kernel.
struct World {
    Client *client;
    HttpRequest *req;
    HttpReply *rep;
    World(const HttpRequestMethod &m, const char *url, const unsigned status)
    {
        AnyP::UriScheme::Init();
        req = static_cast<HttpRequest *>(xcalloc(1, sizeof(HttpRequest)));
        ::new (&req->method) HttpRequestMethod(m);
        ::new (&req->url) AnyP::Uri;
        vf_assert(req->url.parse(m, SBuf(url)), "harness: the request URL parses");
        rep = static_cast<HttpReply *>(xcalloc(1, sizeof(HttpReply)));
        ::new (&rep->header) HttpHeader(hoReply);
        rep->sline.set(Http::ProtocolVersion(1, 1), static_cast<Http::StatusCode>(status));
        client = static_cast<Client *>(xcalloc(1, sizeof(Client)));
        memcpy(&client->request, &req, sizeof(req)); // RefCount<HttpRequest>: its only member, no locking (never destroyed)
        client->theFinalReply = rep;
    }
};

static void config()
{
    http1Config(0, 65536, 65536);
    Config.onoff.check_hostnames = 0;
    Config.uri_whitespace = URI_WHITESPACE_STRIP;
}

static HttpRequestMethod symbolicMethod(unsigned &id)
{
    id = vf_range(Http::METHOD_NONE + 1, Http::METHOD_ENUM_END - 1, "method");
    if (id == Http::METHOD_OTHER)
        return HttpRequestMethod(SBuf("PATCH")); // an extension method in this build
    return HttpRequestMethod(static_cast<Http::MethodType>(id));
}

// O1: the request's own URL
static void target()
{
    vf_quiet(); config();
    unsigned m;
    const HttpRequestMethod method = symbolicMethod(m);
    vf_assume(m != Http::METHOD_CONNECT);  // CONNECT has no cacheable target (its effective URI is an authority)
    // KNOWN FINDING (known_findings.json, C20-unsafe-methods-not-purging): COPY, LOCK and UNLOCK are unsafe methods (RFC 4918; not
    // "Safe" in the IANA registry) but HttpRequestMethod::purgesOthers() lists them as not purging, so a successful COPY/LOCK/UNLOCK
    // leaves the cached GET response of its URL in place (RFC 9111 4.4: MUST invalidate after a non-error response to an unsafe
    // method). Examined only by c20_known_unsafe_methods; every other entry excludes exactly these three methods.
    const bool unpurged = m == Http::METHOD_COPY || m == Http::METHOD_LOCK || m == Http::METHOD_UNLOCK;
    vf_assume(unpurged == onlyUnsafeUnpurged);
    const unsigned status = onlyUnsafeUnpurged ? vf_range(200, 399, "status") : vf_range(200, 599, "status");
    World w(method, "http://h.x/p/q", status);
    w.client->maybePurgeOthers();
    vf_observe("purges", purges);
    if (!registeredSafe((int)m) && status < 400) {
        vf_assert(wasPurged("http://h.x/p/q"), "non-error response to an unsafe method: the request URL is invalidated");
        vf_reach("invalidated");
    } else
        vf_reach(purges ? "purged-anyway" : "kept");
    WITNESS_POINT();
}
extern "C" void c20_target(void) { target(); }
extern "C" void c20_known_unsafe_methods(void) { onlyUnsafeUnpurged = true; target(); }

// O2: URLs named by Location / Content-Location
static void named(const uint8_t *v, const unsigned n)
{
    config();
    static const Http::MethodType pool[3] = {Http::METHOD_POST, Http::METHOD_PUT, Http::METHOD_DELETE};
    const unsigned mi = vf_range(0, 3, "method");
    const HttpRequestMethod method = mi < 3 ? HttpRequestMethod(pool[mi]) : HttpRequestMethod(SBuf("PATCH"));
    const unsigned status = onlyRawPurgeKeys ? vf_range(200, 399, "status") : vf_range(200, 599, "status");
    char val[32];
    for (unsigned i = 0; i < n; ++i) { vf_assume(v[i] != 0 && v[i] != '\r' && v[i] != '\n'); val[i] = (char)v[i]; } // a field value
    val[n] = 0;
    if (n) vf_assume(v[0] != ' ' && v[0] != '\t' && v[n - 1] != ' ' && v[n - 1] != '\t');                      // as parsed: trimmed

    // the reference first (it does not touch Squid): what the value names, and whether it is in a known-finding class
    // (the known-finding entry needs the class before the run to restrict itself; the other entries consult the reference after it)
    char target[96];
    bool isUrl = onlyRawPurgeKeys ? resolve(v, n, target) : false;
    // KNOWN FINDING C20-raw-purge-keys (request POST http://h.x/p/q, status 200; the value in Location or Content-Location): the
    // purge key is the header value as written (absolute values) or an un-normalised merge (relative values), while lookup keys
    // are canonical (AnyP::Uri::parse + absolute()):
    // kAuthoritySpelling: "http://H.x/a", "http://h.x:80/a", "http://u@h.x/a", "http://h.x:81/a" name the request's host but
    //   sameUrlHosts() compares the authority bytes, so nothing is purged (replay "http://H.x/a": 'http://' b '.x' b 'a' with b=72 b=47).
    // kEmptyPath: "http://h.x", "http://h.x?a": sameUrlHosts() compares the request URL's '/' with NUL or '?' -> nothing purged.
    // kSchemeCase: "httP://h.x/a" is purged as written; the stored key has the lower-case scheme.
    // kFragment: "http://h.x/a#f" is purged as written, "/a#f" as ".../a%23f"; a GET never carries the fragment.
    // kEncodedChar: an absolute value is purged as written, but the lookup key is AnyP::Uri::absolute(), which percent-encodes
    //   every byte outside PathChars() -- '[' ']' and, since path_ includes the query, '?' (replay "http://h.x/!]", "http://h.x/?a").
    // kNetworkPath: "//h.x/a" is treated as an absolute path: "http://h.x//h.x/a" is purged instead of http://h.x/a.
    // kDotSegment: "/a/../b", "http://h.x/./a", "./b" are purged with their dot segments; the URL they name (RFC 3986 5.2.4) is not.
    // kQueryOnly: "?x" names http://h.x/p/q?x (RFC 3986 5.2.2: empty path keeps the base path) but AnyP::Uri::addRelativePath() replaces
    //   the last segment: http://h.x/p/%3Fx is purged (replay "?": every value of 0..2 bytes with len=1 b=63).
    bool inKnownClass = false;
    if (onlyRawPurgeKeys) {
        for (unsigned k = 0; k < kClasses; ++k) inKnownClass = inKnownClass || known[k];
        vf_assume(isUrl && !otherHost && inKnownClass); // exactly the finding's class
    }

    World w(method, "http://h.x/p/q", status);
    const bool contentLocation = vf_concretize(vf_bool("content_location"));
    w.rep->header.putStr(contentLocation ? Http::HdrType::CONTENT_LOCATION : Http::HdrType::LOCATION, val);

    w.client->maybePurgeOthers();
    vf_observe("purges", purges);

    if (status >= 400) { vf_reach("error-status"); WITNESS_POINT(); return; } // nothing is required after an error response
    vf_assert(wasPurged("http://h.x/p/q"), "non-error response to an unsafe method: the request URL is invalidated");
    if (!onlyRawPurgeKeys) {
        isUrl = resolve(v, n, target);
        for (unsigned k = 0; k < kClasses; ++k) inKnownClass = inKnownClass || known[k];
    }
    if (!isUrl) { vf_reach("not-a-url"); WITNESS_POINT(); return; }
    if (otherHost) { vf_reach("other-host"); WITNESS_POINT(); return; }
    if (inKnownClass && !onlyRawPurgeKeys) { // excluded here, examined by c20_known_raw_purge_keys
#define KNOWN_CLASS(k, label) if (known[k]) { vf_reach(label); WITNESS_POINT(); return; }
        KNOWN_CLASS(kAuthoritySpelling, "known-authority-spelling") KNOWN_CLASS(kEmptyPath, "known-empty-path")
        KNOWN_CLASS(kSchemeCase, "known-scheme-case") KNOWN_CLASS(kFragment, "known-fragment") KNOWN_CLASS(kEncodedChar, "known-encoded-char")
        KNOWN_CLASS(kNetworkPath, "known-network-path") KNOWN_CLASS(kDotSegment, "known-dot-segment") KNOWN_CLASS(kQueryOnly, "known-query-only")
    }
    AnyP::Uri later; // the later GET for that URL, as Squid parses and keys it
    if (!later.parse(HttpRequestMethod(Http::METHOD_GET), SBuf(target))) { vf_reach("unparsable"); WITNESS_POINT(); return; }
    vf_assert(strcasecmp(later.host(), "h.x") == 0, "harness: the reference and AnyP::Uri::parse agree that the URL names the request's host");
    SBuf key = later.absolute();
    vf_observe("key", sbufHash(key));
    vf_assert(wasPurged(key.c_str()), "same-host URL named by Location/Content-Location is invalidated under the key a later GET uses");
    vf_reach("named-invalidated");
    WITNESS_POINT();
}

#ifdef VF_THOROUGH
#define T(quick, thorough) thorough
#else
#define T(quick, thorough) quick
#endif
#define LOCFAM(fn, lit) extern "C" void fn(void) { vf_quiet(); uint8_t in[sizeof(lit)]; const unsigned n = VF_FILL(in, lit, "b"); named(in, n); }
LOCFAM(c20_abs_path, T("http://h.x/\x01\x01", "http://h.x/\x01\x01\x01"))   // absolute, same host, path bytes
LOCFAM(c20_abs_host, T("http://\x01.x\x01" "a", "http://\x01.\x01\x01" "a")) // host bytes (same / other / case), the byte after the host
LOCFAM(c20_abs_end, T("http://h.\x01", "http://h.\x01\x01"))                  // authority at the end of the value (empty path)
LOCFAM(c20_abs_scheme, T("htt\x01\x01//h.x/a", "ht\x01\x01\x01//h.x/a"))     // scheme end
LOCFAM(c20_rel_abs, T("/\x01\x01", "/\x01\x01\x01"))                        // absolute-path (and network-path) references
LOCFAM(c20_rel_net, T("/\x01h.x/\x01", "/\x01h.x\x01\x01"))                 // network-path reference to the same host
#define NANY T(2, 3)
extern "C" void c20_rel_any(void)                 // every reference of 0..NANY bytes
{
    vf_quiet();
    const unsigned n = (unsigned)vf_concretize(vf_range(0, NANY, "len"));
    uint8_t in[NANY + 1];
    for (unsigned i = 0; i < n; ++i) in[i] = vf_nondet_u8("b");
    named(in, n);
}

// KNOWN FINDING (known_findings.json, C20-raw-purge-keys): values whose purge key is raw / un-normalised
extern "C" void c20_known_raw_purge_keys(void)
{
    onlyRawPurgeKeys = true;
    vf_quiet();
    uint8_t in[24]; unsigned n;
    const unsigned f = (unsigned)vf_concretize(vf_range(0, 4, "family"));
    if (f == 0) n = VF_FILL(in, "http://h.x/\x01\x01", "b");        // fragment, '?' '[' ']', dot segments
    else if (f == 1) n = VF_FILL(in, "http://\x01.x\x01" "a", "b");  // host spelled differently, empty path
    else if (f == 2) n = VF_FILL(in, "htt\x01://h.x/a", "b");        // scheme case
    else if (f == 3) n = VF_FILL(in, "/\x01h.x/a", "b");             // network-path reference
    else n = VF_FILL(in, "?\x01", "b");                              // query-only reference
    named(in, n);
}
