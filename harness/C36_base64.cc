// C36: base64 round trip, malformed input rejected within the promised output size, Basic credentials split.
// lib/base64.cc is compiled out of this build (HAVE_NETTLE_BASE64_H=1: Squid links libnettle); the bundled
// implementation is what the property anchors, so it is encoded here with the macro forced to 0.
#include "squid.h"
#undef HAVE_NETTLE_BASE64_H
#define HAVE_NETTLE_BASE64_H 0
#include "base64.h"
#include "lib/base64.cc"   // (resolved through -I<repository root>: the tree being analysed, not a fixed path)
#include "common.h"

#ifdef VF_THOROUGH
#define MAXRT 12
#define MAXARB 6
#else
#define MAXRT 9
#define MAXARB 5
#endif

extern "C" void c36_roundtrip(void)
{
    vf_quiet();
    const unsigned n = (unsigned)vf_concretize(vf_range(0, MAXRT, "len"));
    uint8_t *src = (uint8_t *)xmalloc(n ? n : 1);
    for (unsigned i = 0; i < n; ++i) src[i] = vf_nondet_u8("byte");
    // streaming encoder, fed in two pieces split at a symbolic point
    const unsigned cut = (unsigned)vf_concretize(vf_range(0, n, "cut"));
    char *enc = (char *)xmalloc(BASE64_ENCODE_LENGTH(n) + BASE64_ENCODE_FINAL_LENGTH + 1);
    struct base64_encode_ctx ectx; base64_encode_init(&ectx);
    size_t el = base64_encode_update(&ectx, enc, cut, src);
    el += base64_encode_update(&ectx, enc + el, n - cut, src + cut);
    el += base64_encode_final(&ectx, enc + el);
    vf_assert(el == BASE64_ENCODE_RAW_LENGTH(n), "encoded length is 4*ceil(n/3)");
    // one-shot encoder agrees
    char *raw = (char *)xmalloc(BASE64_ENCODE_RAW_LENGTH(n) + 1);
    base64_encode_raw(raw, n, src);
    for (size_t i = 0; i < el; ++i) vf_assert(raw[i] == enc[i], "streaming and raw encoders agree");
    for (size_t i = 0; i < el; ++i) {
        const unsigned char c = (unsigned char)enc[i];   // branch-free predicate: no path split per character
        vf_assert(((unsigned)(c - 'A') <= 25u) | ((unsigned)(c - 'a') <= 25u) | ((unsigned)(c - '0') <= 9u) | (c == '+') | (c == '/') | (c == '='), "output alphabet");
    }
    // decode
    uint8_t *dec = (uint8_t *)xmalloc(BASE64_DECODE_LENGTH(el) + 1);
    struct base64_decode_ctx dctx; base64_decode_init(&dctx);
    size_t dl = 0;
    const int ok = base64_decode_update(&dctx, &dl, dec, el, enc) && base64_decode_final(&dctx);
    vf_assert(ok, "decoder accepts the encoder's output");
    vf_assert(dl == n, "decoded length equals input length");
    for (unsigned i = 0; i < n; ++i) vf_assert(dec[i] == src[i], "decode(encode(x)) == x");
    vf_observe("el", el); vf_observe("dl", dl);
    vf_reach("done");
    WITNESS_POINT();
}

// reference decoder (RFC 4648, no whitespace skipping beyond what nettle documents: SP/TAB/CR/LF... are skipped)
static int refDecode(const unsigned char *in, unsigned n, unsigned char *out, unsigned *outLen)
{
    unsigned bits = 0, word = 0, o = 0, padding = 0;
    for (unsigned i = 0; i < n; ++i) {
        const unsigned char c = in[i];
        int v;
        if (c >= 'A' && c <= 'Z') v = c - 'A'; else if (c >= 'a' && c <= 'z') v = c - 'a' + 26; else if (c >= '0' && c <= '9') v = c - '0' + 52;
        else if (c == '+') v = 62; else if (c == '/') v = 63;
        else if (c == '=') v = -3;
        else if (c == ' ' || c == '\t' || c == '\n' || c == '\v' || c == '\f' || c == '\r') v = -2;
        else v = -1;
        if (v == -1) return 0;
        if (v == -2) continue;
        if (v == -3) { if (!bits || padding > 2) return 0; if (word & ((1u << bits) - 1)) return 0; ++padding; bits -= 2; continue; }
        if (padding) return 0;
        word = (word << 6) | (unsigned)v; bits += 6;
        if (bits >= 8) { bits -= 8; out[o++] = (unsigned char)(word >> bits); word &= (1u << bits) - 1; }
    }
    *outLen = o;
    return bits == 0;
}

extern "C" void c36_decode_arbitrary(void)
{
    vf_quiet();
    const unsigned n = (unsigned)vf_concretize(vf_range(1, MAXARB, "len"));
    char *in = (char *)xmalloc(n);
    for (unsigned i = 0; i < n; ++i) in[i] = (char)vf_nondet_u8("byte");
    // exactly the promised size: any write beyond it is an out-of-bounds store for the engine (and ASan natively)
    uint8_t *dec = (uint8_t *)xmalloc(BASE64_DECODE_LENGTH(n));
    struct base64_decode_ctx dctx; base64_decode_init(&dctx);
    size_t dl = 0;
    const int upd = base64_decode_update(&dctx, &dl, dec, n, in);
    const int ok = upd && base64_decode_final(&dctx);
    vf_assert(dl <= BASE64_DECODE_LENGTH(n), "never reports more output than BASE64_DECODE_LENGTH");
    unsigned char ref[8]; unsigned rl = 0;
    const int rok = refDecode((const unsigned char *)in, n, ref, &rl);
    vf_observe("ok", ok); vf_observe("dl", ok ? dl : 0);
    vf_assert(ok == rok, "accepts exactly the well-formed encodings");
    if (ok) {
        vf_assert(dl == rl, "decoded length");
        for (unsigned i = 0; i < rl; ++i) vf_assert(dec[i] == ref[i], "decoded bytes");
        vf_reach("accepted");
    } else
        vf_reach("rejected");
    WITNESS_POINT();
}

// Streaming use of one decode context: two base64_decode_update() calls with chunk lengths 1..3 each (so the second call starts
// with up to 6 buffered bits), each writing into a heap block of exactly BASE64_DECODE_LENGTH(chunk length) bytes -- the size the
// API documents as sufficient for one call; the concatenated output must equal the single-shot reference decoding
#ifdef VF_THOROUGH
#define STREAMN 5
#else
#define STREAMN 4
#endif
extern "C" void c36_decode_stream(void)
{
    vf_quiet();
    const unsigned n1 = (unsigned)vf_concretize(vf_range(1, 3, "len1")), n2 = (unsigned)vf_concretize(vf_range(1, 3, "len2"));
    vf_assume(n1 + n2 <= STREAMN);   // (6 arbitrary bytes = 10^5 paths)
    char in[6];
    for (unsigned i = 0; i < n1 + n2; ++i) in[i] = (char)vf_nondet_u8("byte");
    uint8_t *d1 = (uint8_t *)xmalloc(BASE64_DECODE_LENGTH(n1) ? BASE64_DECODE_LENGTH(n1) : 1);
    uint8_t *d2 = (uint8_t *)xmalloc(BASE64_DECODE_LENGTH(n2) ? BASE64_DECODE_LENGTH(n2) : 1);
    struct base64_decode_ctx dctx; base64_decode_init(&dctx);
    size_t l1 = 0, l2 = 0;
    const int u1 = base64_decode_update(&dctx, &l1, d1, n1, in);
    vf_assert(l1 <= BASE64_DECODE_LENGTH(n1), "never reports more output than BASE64_DECODE_LENGTH");
    const int u2 = u1 && base64_decode_update(&dctx, &l2, d2, n2, in + n1);
    if (u1) vf_assert(l2 <= BASE64_DECODE_LENGTH(n2), "never reports more output than BASE64_DECODE_LENGTH");
    const int ok = u1 && u2 && base64_decode_final(&dctx);
    unsigned char ref[8]; unsigned rl = 0;
    const int rok = refDecode((const unsigned char *)in, n1 + n2, ref, &rl);
    vf_observe("ok", ok);
    vf_assert(ok == rok, "accepts exactly the well-formed encodings");
    if (ok) {
        vf_assert(l1 + l2 == rl, "decoded length");
        for (unsigned i = 0; i < rl; ++i) vf_assert((i < l1 ? d1[i] : d2[i - l1]) == ref[i], "decoded bytes");
        vf_reach("accepted");
    } else
        vf_reach("rejected");
    WITNESS_POINT();
}
