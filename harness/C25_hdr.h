// Shared by the C25 and C26 harnesses: configuration, statistics stubs, and small byte-class helpers for the
// reference models of the real HttpHeader::parse().
#pragma once
#include "squid.h"
#include "http/ContentLengthInterpreter.h"
#include "HttpHeader.h"
#include "common.h"
#include "SquidConfig.h"
#include "MemBuf.h"
#include "StatHist.h"
#include "http/RegisteredHeaders.h"
#include <cstring>

// ---- stubs: header *statistics* (histograms kept per parsed/destroyed header) are irrelevant to both properties.
// StatHist.cc (floating point log histograms, cache manager dumps) is not linked.
void StatHist::enumInit(unsigned int) {}
void StatHist::count(double) {}

static inline void hdrConfig(int relaxed)
{
    vf_quiet();
    Config.onoff.relaxed_header_parser = relaxed;
}

// relaxed_header_parser in {0,1}; thorough entries that ask for it also run -1 (= relaxed, but warn loudly)
static inline int relaxedSetting(const bool withMinusOne = false)
{
#ifdef VF_THOROUGH
    const int r = withMinusOne ? (int)vf_range(0, 2, "relaxed") - 1 : (int)vf_range(1, 2, "relaxed") - 1;
#else
    const int r = (int)vf_range(1, 2, "relaxed") - 1;
#endif
    return (int)vf_concretize((uint64_t)(r + 1)) - 1;
}

// every '\x01' of the template becomes a fresh fully symbolic byte (same as http1.h's vf_fill)
static inline unsigned hdrFill(uint8_t *out, const char *tmpl, unsigned tlen, const char *name)
{
    for (unsigned i = 0; i < tlen; ++i)
        out[i] = tmpl[i] == '\x01' ? vf_nondet_u8(name) : (uint8_t)tmpl[i];
    return tlen;
}
#define HDR_FILL(out, lit, name) hdrFill(out, lit, sizeof(lit) - 1, name)

// ---- byte classes of the reference models (written from RFC 9110/9112, not from Squid's tables)
static inline bool refWs(uint8_t c) { return c == ' ' || (c >= 9 && c <= 13); }           // C-locale isspace
static inline bool refDigit(uint8_t c) { return c >= '0' && c <= '9'; }
static inline bool refTchar(uint8_t c)
{
    if ((c >= '0' && c <= '9') || (c >= 'a' && c <= 'z') || (c >= 'A' && c <= 'Z')) return true;
    switch (c) { case '!': case '#': case '$': case '%': case '&': case '\'': case '*': case '+': case '-': case '.':
                 case '^': case '_': case '`': case '|': case '~': return true; }
    return false;
}
static inline uint8_t refLower(uint8_t c) { return (c >= 'A' && c <= 'Z') ? c + 32 : c; }
static inline bool refNameIs(const uint8_t *p, unsigned n, const char *lit)
{
    unsigned i = 0;
    for (; i < n && lit[i]; ++i) if (refLower(p[i]) != refLower((uint8_t)lit[i])) return false;
    return i == n && !lit[i];
}
