// C41: dstdomain-style ACL (ACLDomainData: parse() -> SplayInserter::Merge -> splay; match() -> splay find with matchDomainName)
// against "exists a configured value that matches the host".
#include "squid.h"
#include "acl/DomainData.cc"     // the real translation unit (template specialisations included)
#include "common.h"

#define NVAL 3   // largest list of any entry
int opt_parse_cfg_only = 0;      // globals.cc is not linked

// ---- the configuration tokens handed to ACLDomainData::parse() (ConfigParser.cc itself is not linked)
static char *cfgTok[NVAL + 1];
static unsigned cfgNext = 0, cfgCount = 0;
char *ConfigParser::strtokFile() { return cfgNext < cfgCount ? cfgTok[cfgNext++] : nullptr; }

// well-formed name over the given alphabet: non-empty labels separated by single dots, optional leading dot for values only
static char *symbolicName(unsigned maxLen, bool value, const char *lenName, const char *byteName, char upper)
{
    const unsigned n = (unsigned)vf_concretize(vf_range(1, maxLen, lenName));
    char *s = (char *)xmalloc(n + 1);
    for (unsigned i = 0; i < n; ++i) {
        const char c = (char)vf_nondet_u8(byteName);
        vf_assume(c == 'a' || c == upper || c == '.');
        s[i] = c;
    }
    s[n] = 0;
    vf_assume(s[n - 1] != '.');
    if (!value) vf_assume(s[0] != '.');
    for (unsigned i = 0; i + 1 < n; ++i) vf_assume(!(s[i] == '.' && s[i + 1] == '.'));
    return s;
}

static char low(char c) { return (c >= 'A' && c <= 'Z') ? c + 32 : c; }
static bool eqNoCase(const char *a, const char *b) { for (; *a && *b; ++a, ++b) if (low(*a) != low(*b)) return false; return *a == *b; }
// the rule stated by the property
static bool refMatch(const char *host, const char *v)
{
    if (v[0] != '.') return eqNoCase(host, v);
    if (eqNoCase(host, v + 1)) return true;                 // the domain itself
    const size_t hl = strlen(host), vl = strlen(v);
    return hl > vl && eqNoCase(host + hl - vl, v);          // any subdomain: host ends with ".domain"
}

static void domainAcl(const unsigned maxValues, const unsigned VLEN, const unsigned HLEN, const char vLetter = 'b', const char hLetter = 'B', const bool firstLookup = false)
{
    vf_quiet();
    cfgCount = (unsigned)vf_concretize(vf_range(1, maxValues, "nvalues"));
    char *vals[NVAL];
    for (unsigned i = 0; i < cfgCount; ++i) {
        vals[i] = symbolicName(VLEN, true, "vlen", "vbyte", vLetter);   // values over {a,b,.} (parse() lowercases anyway)
        cfgTok[i] = xstrdup(vals[i]);                               // parse() takes its own copy and lowercases the token in place
    }
    cfgNext = 0;
    char *host = symbolicName(HLEN, false, "hlen", "hbyte", hLetter);   // host over {a,B,.}: exercises case-insensitivity
    ACLDomainData *acl = new ACLDomainData;
    acl->parse();
    vf_assert(!acl->empty(), "parsed values are kept");
    bool expect = false;
    for (unsigned i = 0; i < cfgCount; ++i) expect = expect || refMatch(host, vals[i]);
    if (firstLookup) {
        // an earlier lookup of another host reorganises the splay tree; its answer is checked as well
        char *host0 = symbolicName(2, false, "h0len", "h0byte", hLetter);
        bool expect0 = false;
        for (unsigned i = 0; i < cfgCount; ++i) expect0 = expect0 || refMatch(host0, vals[i]);
        vf_assert(acl->match(host0) == expect0, "ACL matches iff some configured value matches the host");
    }
    const bool got = acl->match(host);
    vf_observe("expect", expect);
    vf_observe("got", got);
    vf_assert(got == expect, "ACL matches iff some configured value matches the host");
    vf_reach(got ? "match" : "nomatch");
    delete acl;
    WITNESS_POINT();
}
extern "C" void c41_two_values(void) { domainAcl(2, 2, 3); }
extern "C" void c41_two_long_values(void) { domainAcl(2, 3, 3); }
// names over {a,-,.}: '-' is the one host-name character that sorts below '.', which the splay ordering (matchDomainName) has to get right
#ifdef VF_THOROUGH
extern "C" void c41_hyphen(void) { domainAcl(2, 3, 3, '-', '-'); }
#else
extern "C" void c41_hyphen(void) { domainAcl(2, 2, 3, '-', '-'); }
#endif
// the same with a lookup of another (1..2 byte) host before: the splay tree has been rotated by that lookup
extern "C" void c41_history(void) { domainAcl(2, 2, 3, '-', '-', true); }
extern "C" void c41_three_values(void) { domainAcl(3, 2, 3); }   // not in a tier: did not finish within 8 minutes together with the entry above
