// C25: header blocks are parsed into exactly their fields.
// The real HttpHeader::parse(block, len, clen) (with HttpHeaderEntry::parse, the registered-header lookup, the
// Content-Length interpreter and HttpHeader::packInto) is run on a block with symbolic bytes at its decision points.
//
// Oracle: refSplit() below, a direct field splitter written from the property text:
//   lines end at LF (one CR before it belongs to the terminator); a line starting with SP/HT continues the previous
//   field (obs-fold: the folded lines form ONE field, its bytes are kept as they are); name = bytes before the first
//   ':'; value = the rest with surrounding whitespace removed. In relaxed mode a bare CR inside a line counts as SP.
// Asserted:
//   (R) NUL anywhere; whitespace before the colon (request); obs-fold or bare CR in Content-Length/Transfer-Encoding;
//       a CR-only line (request)                                              => parse() returns 0
//   (F) parse() returns 1 => every field has a non-empty token name and the stored entries are exactly the
//       reference's (name, value) list in order (framing sanitation of Content-Length is C26's subject: Content-Length
//       entries are compared only when the block has exactly one, list-free, and no Transfer-Encoding)
//   (P) parse() returns 1 => packInto() + parse() of the packed bytes returns 1 and yields the same entries and flags
//   (A) a block of plain "token: vchars CRLF|LF" lines without framing fields is accepted (guards against over-rejection)
#include "C25_hdr.h"

#define MAXN 96
#define MAXF 6

struct RefField {
    unsigned ns, nl;   // name (after removing trailing whitespace where the parser is allowed to: replies)
    unsigned vs, vl;   // trimmed value
    unsigned lines;
    bool bareCr, colon, wsBeforeColon, tokenName;
    int kind;          // 0 other, 1 Content-Length, 2 Transfer-Encoding
};
struct Ref {
    bool hasNul, unterminated, crOnlyLine, blankContinuation, strayEmptyLine, tooMany;
    unsigned nf;
    RefField f[MAXF];
    uint8_t b[MAXN];   // the bytes as the fields see them (relaxed: bare CR -> SP)
};

static void refSplit(Ref &r, const uint8_t *in, const unsigned n, const bool relaxed, const bool reply)
{
    r.hasNul = r.unterminated = r.crOnlyLine = r.blankContinuation = r.strayEmptyLine = r.tooMany = false;
    r.nf = 0;
    for (unsigned i = 0; i < n; ++i) { r.b[i] = in[i]; if (in[i] == 0) r.hasNul = true; }
    unsigned pos = 0;
    while (pos < n) {
        const unsigned fs = pos;
        unsigned fe = pos, lines = 0;
        bool bare = false;
        do {
            const unsigned ls = pos;
            unsigned le = ls;
            while (le < n && in[le] != '\n') ++le;
            if (le == n) { r.unterminated = true; return; }
            pos = le + 1;
            unsigned ce = le;                               // content end: without the line terminator
            if (ce > ls && in[ce - 1] == '\r') {
                --ce;
                bool allCr = ce > ls;
                for (unsigned i = ls; i < ce; ++i) if (in[i] != '\r') allCr = false;
                if (allCr) r.crOnlyLine = true;             // CR+ CR LF
            }
            for (unsigned i = ls; i < ce; ++i)
                if (in[i] == '\r') { bare = true; if (relaxed) r.b[i] = ' '; }
            if (lines > 0 && ce - ls == 1) r.blankContinuation = true;
            ++lines;
            fe = ce;
        } while (pos < n && (in[pos] == ' ' || in[pos] == '\t'));
        if (fs == fe) {                                     // empty line: only the block terminator may be one
            if (pos < n) r.strayEmptyLine = true;
            return;
        }
        if (r.nf == MAXF) { r.tooMany = true; return; }
        RefField &f = r.f[r.nf++];
        f.lines = lines; f.bareCr = bare;
        unsigned c = fs;
        while (c < fe && r.b[c] != ':') ++c;
        f.colon = c < fe;
        f.ns = fs; f.nl = f.colon ? c - fs : 0;
        f.wsBeforeColon = f.colon && f.nl > 0 && refWs(r.b[c - 1]);
        if (f.wsBeforeColon && reply)                        // RFC 9112 5.1: a proxy removes this whitespace from responses
            while (f.nl > 0 && refWs(r.b[fs + f.nl - 1])) --f.nl;
        f.tokenName = f.nl > 0;
        for (unsigned i = 0; i < f.nl; ++i) if (!refTchar(r.b[fs + i])) f.tokenName = false;
        unsigned vs = f.colon ? c + 1 : fe, ve = fe;
        while (vs < ve && refWs(r.b[vs])) ++vs;
        while (vs < ve && refWs(r.b[ve - 1])) --ve;
        f.vs = vs; f.vl = ve - vs;
        f.kind = refNameIs(r.b + f.ns, f.nl, "Content-Length") ? 1 : refNameIs(r.b + f.ns, f.nl, "Transfer-Encoding") ? 2 : 0;
    }
}

static bool entryIs(const HttpHeaderEntry *e, const Ref &r, const RefField &f)
{
    if (e->name.length() != f.nl || e->value.size() != f.vl) return false;
    const bool registered = e->id != Http::HdrType::OTHER;   // registered names are stored in their canonical spelling
    for (unsigned i = 0; i < f.nl; ++i) {
        const uint8_t a = (uint8_t)e->name[i], b = r.b[f.ns + i];
        if (registered ? refLower(a) != refLower(b) : a != b) return false;
    }
    for (unsigned i = 0; i < f.vl; ++i)
        if ((uint8_t)e->value[i] != r.b[f.vs + i]) return false;
    return true;
}

static bool sameEntry(const HttpHeaderEntry *a, const HttpHeaderEntry *b)
{
    if (a->id != b->id || a->name.length() != b->name.length() || a->value.size() != b->value.size()) return false;
    for (unsigned i = 0; i < a->name.length(); ++i) if (a->name[i] != b->name[i]) return false;
    for (unsigned i = 0; i < a->value.size(); ++i) if (a->value[i] != b->value[i]) return false;
    return true;
}

struct Labels { const char *accepted, *rejected; };

static bool onlyReplyWsColon = false; // set by c25_known_reply_ws_colon only
static void check(const uint8_t *in, const unsigned n, const http_hdr_owner_type owner, const int relaxedCfg, const Labels &lab)
{
    const bool relaxed = relaxedCfg != 0, request = owner == hoRequest;
    static Ref r;
    refSplit(r, in, n, relaxed, !request);

    char buf[MAXN + 1];                                      // parse() edits the buffer in relaxed mode: give it a copy
    for (unsigned i = 0; i < n; ++i) buf[i] = (char)in[i];
    buf[n] = 0;
    HttpHeader h(owner);
    Http::ContentLengthInterpreter clen;
    const int ok = h.parse(buf, n, clen);
    vf_observe("ok", ok); vf_observe("entries", h.entries.size());
    vf_assert(ok == 0 || ok == 1, "parse() returns 0 or 1");

    // (R) what the property says must be rejected
    bool foldedFraming = false, wsColon = false;
    unsigned nCl = 0, nTe = 0, nClDigits = 0;
    bool plain = !r.hasNul && !r.unterminated && !r.strayEmptyLine && !r.tooMany;
    for (unsigned k = 0; k < r.nf; ++k) {
        const RefField &f = r.f[k];
        if (f.kind && (f.lines > 1 || f.bareCr)) foldedFraming = true;
        if (f.wsBeforeColon) wsColon = true;
        if (f.kind == 1) {
            ++nCl;
            bool digits = f.vl >= 1 && f.vl <= 18;
            for (unsigned i = 0; i < f.vl; ++i) if (!refDigit(r.b[f.vs + i])) digits = false;
            if (digits) ++nClDigits;
        }
        if (f.kind == 2) ++nTe;
        if (f.lines > 1 || f.bareCr || !f.colon || !f.tokenName || f.wsBeforeColon || f.kind == 1) plain = false;
        for (unsigned i = 0; i < f.vl; ++i) { const uint8_t c = r.b[f.vs + i]; if (c < 32 && c != '\t') plain = false; if (c == 127) plain = false; }
    }
    if (onlyReplyWsColon) { // KNOWN FINDING C25-reply-ws-before-colon (known_findings.json): the property text, read literally
        vf_assume(!request && wsColon && !r.hasNul && !foldedFraming);
        vf_assert(!ok, "a field with whitespace before the colon is rejected");
        return;
    }
    if (r.hasNul) vf_assert(!ok, "a block with a NUL byte is rejected");
    if (request && wsColon) vf_assert(!ok, "a request field with whitespace before the colon is rejected");
    if (foldedFraming) vf_assert(!ok, "obs-fold or bare CR in Content-Length/Transfer-Encoding is rejected");
    if (request && r.crOnlyLine) vf_assert(!ok, "a request header line consisting only of CRs is rejected");
    // (A) plainly well-formed blocks are accepted
    if (plain) vf_assert(ok == 1, "a block of well-formed single-line fields is accepted");

    if (!ok) {
        vf_assert(h.entries.empty(), "a rejected block leaves no stored fields");
        vf_reach(lab.rejected);
        WITNESS_POINT();
        return;
    }

    // (F) stored fields == reference fields
    vf_assert(!r.unterminated && !r.strayEmptyLine, "accepted blocks consist of LF-terminated field lines");
    vf_assert(!r.tooMany, "harness bound: at most MAXF fields");
    const bool compareCl = nTe == 0 && nCl == 1 && nClDigits == 1;   // a lone 1*DIGIT Content-Length is an ordinary field
    unsigned ei = 0, clEntries = 0;
    for (unsigned k = 0; k < r.nf; ++k) {
        const RefField &f = r.f[k];
        vf_assert(f.colon && f.tokenName, "every field of an accepted block is token ':' value");
        if (f.kind == 1 && !compareCl) continue;
        while (ei < h.entries.size() && (!h.entries[ei] || (!compareCl && h.entries[ei]->id == Http::HdrType::CONTENT_LENGTH))) ++ei;
        vf_assert(ei < h.entries.size(), "no field of the block is missing from the stored fields");
        if (ei < h.entries.size()) {
            vf_assert(entryIs(h.entries[ei], r, f), "stored field = the block's (name, trimmed value) at this position");
            const Http::HdrType id = h.entries[ei]->id;
            vf_assert((f.kind == 1) == (id == Http::HdrType::CONTENT_LENGTH) && (f.kind == 2) == (id == Http::HdrType::TRANSFER_ENCODING),
                      "framing fields are recognised whatever the case of their name");
            ++ei;
        }
    }
    for (; ei < h.entries.size(); ++ei)
        vf_assert(!h.entries[ei] || (!compareCl && h.entries[ei]->id == Http::HdrType::CONTENT_LENGTH), "no stored field beyond the block's fields");
    for (unsigned i = 0; i < h.entries.size(); ++i) if (h.entries[i] && h.entries[i]->id == Http::HdrType::CONTENT_LENGTH) ++clEntries;
    vf_assert(clEntries <= 1, "at most one Content-Length is stored");
    if (nTe) vf_assert(clEntries == 0, "Content-Length is not stored next to Transfer-Encoding");

    // (P) pack and re-parse
    MemBuf mb;
    mb.init();
    h.packInto(&mb);
    HttpHeader h2(owner);
    Http::ContentLengthInterpreter clen2;
    const int ok2 = h2.parse(mb.content(), mb.contentSize(), clen2);
    vf_observe("packed", mb.contentSize());
    vf_assert(ok2 == 1, "the packed fields parse again");
    if (ok2 == 1) {
        unsigned a = 0, b = 0, same = 1;
        for (;;) {
            while (a < h.entries.size() && !h.entries[a]) ++a;
            while (b < h2.entries.size() && !h2.entries[b]) ++b;
            if (a == h.entries.size() || b == h2.entries.size()) break;
            if (!sameEntry(h.entries[a], h2.entries[b])) same = 0;
            ++a; ++b;
        }
        vf_assert(same && a == h.entries.size() && b == h2.entries.size(), "re-parsing the packed fields yields the same fields");
        // (conflictingContentLength() is not a function of the stored fields: a bad Content-Length is dropped, not stored)
        vf_assert(h.unsupportedTe() == h2.unsupportedTe(), "re-parsing the packed fields yields the same Transfer-Encoding verdict");
    }
    mb.clean();
    vf_reach(r.nf ? lab.accepted : "accepted-empty");
    for (unsigned k = 0; k < r.nf; ++k) if (r.f[k].lines > 1) vf_reach("accepted-folded");
    WITNESS_POINT();
}

// ---- families. Every family runs for owner in {request, reply} x relaxed_header_parser in {0,1} (thorough, c25_names: {-1,0,1}).
struct Setting { int relaxed; http_hdr_owner_type owner; };
static Setting setting(const bool withMinusOne)
{
    Setting s;
    s.relaxed = relaxedSetting(withMinusOne);
    hdrConfig(s.relaxed);
    s.owner = vf_concretize(vf_range(0, 1, "reply")) ? hoReply : hoRequest;
    return s;
}

// appends a template to the block: every '\x01' becomes a fresh fully symbolic byte
static unsigned put(uint8_t *out, unsigned n, const char *tmpl)
{
    for (; *tmpl; ++tmpl) { vf_assert(n < MAXN, "harness: block fits"); out[n++] = *tmpl == '\x01' ? vf_nondet_u8("b") : (uint8_t)*tmpl; }
    return n;
}

#ifdef VF_THOROUGH
#define T(q, t) t
#else
#define T(q, t) q
#endif
#define FAMILY(fn, lit) static void fn(const Setting &s) { \
    static const Labels lab = {#fn "-accepted", #fn "-rejected"}; \
    uint8_t in[MAXN]; const unsigned n = put(in, 0, lit); check(in, n, s.owner, s.relaxed, lab); }

// the byte(s) before the colon of a registered name: whitespace before the colon, longer name, second colon ...
FAMILY(colon, T("Host\x01:v\r\nX: y\r\n", "Host\x01\x01:v\r\nX: y\r\n"))
// field-name bytes: token characters, case-insensitive recognition of registered names
FAMILY(name, T("\x01ost: v\r\n", "\x01\x01st: v\r\n"))
// the value's edges: leading and trailing whitespace of every kind
FAMILY(value, T("X:\x01v\x01\r\nHost: y\r\n", "X:\x01v\x01\x01\r\nHost: y\r\n"))
// how a field line ends: CRLF, bare LF, CR CR LF, bare CR, trailing whitespace, NUL ...
FAMILY(eol, T("A: b\x01\x01X: y\r\n", "A: b\x01\x01\x01X: y\r\n"))
// the line after a field: continuation (SP/HT first), blank continuation, a new field, the terminator
FAMILY(fold, T("A: b\r\n\x01\x01\r\nX: y\r\n", "A: b\x01\n\x01\x01\r\nX: y\r\n"))
// obs-fold with either line ending, then more value
FAMILY(fold2, T("A: b\x01\n\x01" "c\r\n", "A: b\x01\n\x01" "c\x01\n"))
// first and last line of the block: CR-only lines, leading whitespace, blank first line
FAMILY(head, T("\x01\x01\nX: y\r\n", "\x01\x01\x01\nX: y\r\n"))
FAMILY(tail, T("X: y\r\n\x01\x01\r\n", "X: y\r\n\x01\x01\x01\n"))

// framing fields: name from {Content-Length, Transfer-Encoding, cONTENT-lENGTH (thorough: + Host)}; a byte inside the value
// (bare CR, digit, SP ...) and the first byte of the next line (SP/HT: obs-fold)
static void framing(const Setting &s)
{
    static const Labels lab = {"framing-accepted", "framing-rejected"};
    static const char *names[4] = {"Content-Length", "Transfer-Encoding", "cONTENT-lENGTH", "Host"};
    uint8_t in[MAXN];
    unsigned n = put(in, 0, names[vf_concretize(vf_range(0, T(2, 3), "name"))]);
    n = put(in, n, T(": 1\x01" "0\r\n\x01:2\r\n", ": 1\x01" "0\x01\n\x01:2\r\n"));
    check(in, n, s.owner, s.relaxed, lab);
}

// duplicate fields and framing-field combinations: two (thorough: three) fields from a pool, one symbolic Content-Length value byte
static void dup(const Setting &s)
{
    static const Labels lab = {"dup-accepted", "dup-rejected"};
    static const char *pool[5] = {"X: a\r\n", "Content-Length: 7\r\n", "Transfer-Encoding: chunked\r\n", "Host: h\r\n", "Content-Length: \x01\r\n"};
    uint8_t in[MAXN];
    unsigned n = put(in, 0, pool[vf_concretize(vf_range(0, 3, "f1"))]);
    n = put(in, n, pool[vf_concretize(vf_range(0, 4, "f2"))]);
#ifdef VF_THOROUGH
    n = put(in, n, pool[vf_concretize(vf_range(0, 3, "f3"))]);
#endif
    check(in, n, s.owner, s.relaxed, lab);
}

// short fully symbolic blocks
#define NFULL T(3, 4)
static void any(const Setting &s)
{
    static const Labels lab = {"any-accepted", "any-rejected"};
    const unsigned n = (unsigned)vf_concretize(vf_range(0, NFULL, "len"));
    uint8_t in[MAXN];
    for (unsigned i = 0; i < n; ++i) in[i] = vf_nondet_u8("b");
    check(in, n, s.owner, s.relaxed, lab);
}

// ---- entries: a few families each (fewer entries = fewer native replay binaries); the family is a case split
typedef void Family(const Setting &);
static void run(Family *const *fams, const unsigned count, const bool withMinusOne = false)
{
    const Setting s = setting(withMinusOne);
    fams[vf_concretize(vf_range(0, count - 1, "family"))](s);
}
extern "C" void c25_names(void) { static Family *const f[] = {colon, name}; run(f, 2, true); }
extern "C" void c25_lines(void) { static Family *const f[] = {value, eol, fold, fold2}; run(f, 4); }
extern "C" void c25_ends(void) { static Family *const f[] = {head, tail, any}; run(f, 3); }
// a fold at the EDGE of a framing field's value: directly after the colon ("N:" CRLF b "10" CRLF, b = SP/HT makes the second line a
// continuation) or a trailing continuation line of whitespace only ("N: 10" CRLF b b CRLF); the trimming of the value must not hide it
static void framingEdge(const Setting &s)
{
    static const Labels lab = {"framingEdge-accepted", "framingEdge-rejected"};
    static const char *names[3] = {"Content-Length", "Transfer-Encoding", "cONTENT-lENGTH"};
    uint8_t in[MAXN];
    unsigned n = put(in, 0, names[vf_concretize(vf_range(0, 2, "name"))]);
    if (vf_concretize(vf_range(0, 1, "edge"))) n = put(in, n, ": 10\r\n\x01\x01\r\nX: y\r\n");
    else n = put(in, n, ":\r\n\x01" "10\r\nX: y\r\n");
    check(in, n, s.owner, s.relaxed, lab);
}
extern "C" void c25_framing(void) { static Family *const f[] = {framing, dup, framingEdge}; run(f, 3); }

// KNOWN FINDING C25-reply-ws-before-colon: reply header fields with whitespace before the colon are accepted (stripped)
extern "C" void c25_known_reply_ws_colon(void)
{
    onlyReplyWsColon = true;
    Setting s;
    s.relaxed = relaxedSetting(false);
    hdrConfig(s.relaxed);
    s.owner = hoReply;
    colon(s);
}
