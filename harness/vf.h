// Harness interface: the same harness source is interpreted by sqsym and compiled natively for replay.
#pragma once
#include <stdint.h>
#include <stddef.h>
#ifdef __cplusplus
extern "C" {
#endif
uint8_t  vf_nondet_u8(const char *name);
uint16_t vf_nondet_u16(const char *name);
uint32_t vf_nondet_u32(const char *name);
uint64_t vf_nondet_u64(const char *name);
void     vf_nondet_buf(void *p, size_t n, const char *name);
void     vf_assume(int cond);                    /* place before the code it constrains */
void     vf_assert(int cond, const char *what);  /* the property */
void     vf_observe(const char *tag, uint64_t v);/* differential trace (interpreter vs native) */
void     vf_reach(const char *label);            /* vacuity witness */
uint64_t vf_concretize(uint64_t v);              /* force a case split over the feasible values of v */
int      vf_spawn(void (*fn)(void *), void *arg);
void     vf_join(void);
void     vf_yield(void);
uint32_t vf_choose(uint32_t n, const char *name); /* nondeterministic choice in 0..n-1 by forking, no symbolic variable */
#ifdef __cplusplus
}
/* convenience */
static inline uint32_t vf_range(uint32_t lo, uint32_t hi, const char *name) { uint32_t v = vf_nondet_u32(name); vf_assume(v >= lo && v <= hi); return v; }
static inline bool vf_bool(const char *name) { return vf_nondet_u8(name) & 1; }
#endif
