// Shared helpers for the HTTP/1 parser harnesses (C21, C22, C23, C24, C62, C09).
#pragma once
#include "squid.h"
#include "common.h"
#include "SquidConfig.h"
#include "sbuf/SBuf.h"
#include <cstring>

// Builds a byte string from a template: every '\x01' in the template becomes a fresh fully symbolic byte.
// Returns the length. (The template's other bytes are the concrete skeleton.)
static inline unsigned vf_fill(uint8_t *out, const char *tmpl, unsigned tlen, const char *name)
{
    for (unsigned i = 0; i < tlen; ++i)
        out[i] = tmpl[i] == '\x01' ? vf_nondet_u8(name) : (uint8_t)tmpl[i];
    return tlen;
}
#define VF_FILL(out, lit, name) vf_fill(out, lit, sizeof(lit) - 1, name)

static inline bool sbufEq(const SBuf &a, const SBuf &b)
{
    if (a.length() != b.length()) return false;
    for (SBuf::size_type i = 0; i < a.length(); ++i) if (a[i] != b[i]) return false;
    return true;
}
static inline uint64_t sbufHash(const SBuf &a)
{
    uint64_t h = a.length();
    for (SBuf::size_type i = 0; i < a.length(); ++i) h = h * 131 + (uint8_t)a[i];
    return h;
}

static inline void http1Config(int relaxed, size_t maxReq, size_t maxReply)
{
    vf_quiet();
    Config.onoff.relaxed_header_parser = relaxed;
    Config.maxRequestHeaderSize = maxReq;
    Config.maxReplyHeaderSize = maxReply;
}
