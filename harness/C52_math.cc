// C52: SquidMath.h helpers are exact for every argument value (all arguments fully symbolic).
#include "squid.h"
#include "SquidMath.h"
#include "common.h"
#include <cstdint>

typedef __int128 i128;
template <typename T> static T nd(const char *name) { return (T)vf_nondet_u64(name); }

template <typename A, typename B> static void checkLess()
{
    const A a = nd<A>("a"); const B b = nd<B>("b");
    const bool r = Less(a, b);
    vf_observe("less", r);
    vf_assert(r == ((i128)a < (i128)b), "Less(a,b) is the mathematical comparison");
}
template <typename S, typename A, typename B> static void checkSum2()
{
    const A a = nd<A>("a"); const B b = nd<B>("b");
    const auto r = NaturalSum<S>(a, b);
    const i128 sum = (i128)a + (i128)b;
    const bool expect = (i128)a >= 0 && (i128)b >= 0 && sum <= (i128)std::numeric_limits<S>::max();
    vf_observe("has", r.has_value());
    vf_assert(r.has_value() == expect, "NaturalSum has a value iff all arguments are non-negative and the sum fits");
    if (r) vf_assert((i128)r.value() == sum, "NaturalSum is exact");
    S var = 0;
    const S m = SetToNaturalSumOrMax(var, a, b);
    vf_assert(m == var, "SetToNaturalSumOrMax returns what it stored");
    vf_assert((i128)var == (expect ? sum : (i128)std::numeric_limits<S>::max()), "SetToNaturalSumOrMax stores the exact sum or the maximum");
}
template <typename S, typename A, typename B, typename C> static void checkSum3()
{
    const A a = nd<A>("a"); const B b = nd<B>("b"); const C c = nd<C>("c");
    const auto r = NaturalSum<S>(a, b, c);
    const i128 sum = (i128)a + (i128)b + (i128)c;
    const bool expect = (i128)a >= 0 && (i128)b >= 0 && (i128)c >= 0 && sum <= (i128)std::numeric_limits<S>::max();
    vf_observe("has", r.has_value());
    vf_assert(r.has_value() == expect, "3-argument NaturalSum has a value iff arguments are non-negative and the sum fits");
    if (r) vf_assert((i128)r.value() == sum, "3-argument NaturalSum is exact");
}
template <typename S, typename T> static void checkIncrease()
{
    const S s = nd<S>("s"); const T t = nd<T>("t");
    const auto r = IncreaseSum(s, t);
    const i128 sum = (i128)s + (i128)t;
    const bool expect = (i128)s >= 0 && (i128)t >= 0 && sum <= (i128)std::numeric_limits<S>::max();
    vf_assert(r.has_value() == expect, "IncreaseSum has a value iff both are non-negative and the sum fits S");
    if (r) vf_assert((i128)r.value() == sum, "IncreaseSum is exact");
}

#define TYPES8(X, A) X(A, int8_t) X(A, uint8_t) X(A, int16_t) X(A, uint16_t) X(A, int32_t) X(A, uint32_t) X(A, int64_t) X(A, uint64_t)
typedef void (*Fn)();
#define LESS(A, B) &checkLess<A, B>,
static const Fn lessTests[] = { TYPES8(LESS, int8_t) TYPES8(LESS, uint8_t) TYPES8(LESS, int16_t) TYPES8(LESS, uint16_t) TYPES8(LESS, int32_t) TYPES8(LESS, uint32_t) TYPES8(LESS, int64_t) TYPES8(LESS, uint64_t) };
static const Fn sumTests[] = {
    &checkSum2<int32_t, int32_t, int32_t>, &checkSum2<int32_t, uint32_t, int32_t>, &checkSum2<uint32_t, int32_t, uint32_t>, &checkSum2<uint32_t, uint32_t, uint32_t>,
    &checkSum2<int64_t, int64_t, int64_t>, &checkSum2<int64_t, uint64_t, int64_t>, &checkSum2<uint64_t, int64_t, uint64_t>, &checkSum2<uint64_t, uint64_t, uint64_t>,
    &checkSum2<int64_t, int32_t, uint32_t>, &checkSum2<uint64_t, int32_t, int64_t>, &checkSum2<int32_t, int64_t, uint64_t>, &checkSum2<uint32_t, uint64_t, int32_t>,
    &checkSum2<uint8_t, int32_t, uint32_t>, &checkSum2<int8_t, uint64_t, int64_t>, &checkSum2<uint16_t, int64_t, int32_t>, &checkSum2<int16_t, uint32_t, uint64_t>,
    &checkSum2<int32_t, int8_t, uint16_t>, &checkSum2<uint64_t, int16_t, uint8_t>, &checkSum2<int64_t, uint8_t, int8_t>, &checkSum2<size_t, size_t, int>,
    &checkSum3<int32_t, int32_t, uint32_t, int64_t>, &checkSum3<uint64_t, uint64_t, uint64_t, uint64_t>, &checkSum3<int64_t, uint64_t, int32_t, uint32_t>, &checkSum3<uint32_t, int64_t, int64_t, int32_t>,
    &checkSum3<uint16_t, uint32_t, int32_t, uint64_t>, &checkSum3<int64_t, int64_t, int64_t, int64_t>,
    &checkIncrease<int32_t, int32_t>, &checkIncrease<int32_t, uint64_t>, &checkIncrease<uint32_t, int64_t>, &checkIncrease<int64_t, uint64_t>, &checkIncrease<uint64_t, int64_t>, &checkIncrease<uint64_t, uint64_t>,
    &checkIncrease<uint8_t, int32_t>, &checkIncrease<int16_t, uint32_t>,
};
extern "C" void c52_less(void)
{
    vf_quiet();
    const unsigned n = sizeof(lessTests) / sizeof(lessTests[0]);
    lessTests[vf_concretize(vf_range(0, n - 1, "instantiation"))]();
    vf_reach("done");
    WITNESS_POINT();
}
extern "C" void c52_sums(void)
{
    vf_quiet();
    const unsigned n = sizeof(sumTests) / sizeof(sumTests[0]);
    sumTests[vf_concretize(vf_range(0, n - 1, "instantiation"))]();
    vf_reach("done");
    WITNESS_POINT();
}
