// C01 (kernel): response bodies are relayed byte-exactly with correct framing.
//
// (A) c01_body_*: the real HttpStateData (real constructor; state as processReplyHeader() leaves it is set by the harness) reads
//     the origin's body bytes through the real readReply() -> processReply() -> processReplyBody() -> writeReplyBody() /
//     decodeAndWriteReplyBody() (real TeChunkedParser) -> truncateVirginBody() / addVirginReplyBody() / storeReplyBody() ->
//     persistentConnStatus() / statusIfComplete() -> serverComplete() / completeForwarding() / markPrematureReplyBodyEofFailure(),
//     every call delivered by the real AsyncCallQueue. Comm::Read()/Comm::ReadNow() hand out the origin's byte stream in
//     segments of symbolic length, then (optionally) EOF or a read error. StoreEntry::write() records what reaches the store,
//     FwdState::markStoredReplyAsWhole()/complete()/fail() and PconnPool::push() record how the exchange ends.
//     Oracle: the stored bytes are exactly the origin's body bytes received so far (decoded for chunked; never beyond a
//     declared Content-Length); the reply is marked as stored whole only if the framing says the body is complete (declared
//     length reached, last-chunk received, or EOF for close-delimited bodies); a body cut short by EOF is reported as a
//     failure and never marked whole; the server connection is reused only after a message that ended exactly at its framing.
// (B) c01_status: persistentConnStatus()/statusIfComplete() over symbolic state (eof, lastChunk, chunked, payload counters,
//     status, Content-Length, method, keep-alive inputs).
// (C) c01_chunk_*: Http::Stream::packChunk() (client-side chunking) composed with the real TeChunkedParser and a strict
//     reference decoder: decode(packChunk(b1) .. packChunk(bn) + last-chunk) = b1..bn; without the last-chunk the message
//     is visibly incomplete.
#include "squid.h"
#include <sstream>
#include <functional>
#include <chrono>
#include <atomic>
#include <iostream>
#include <string>
#include <vector>
#include <list>
#include <map>
#include <unordered_map>
#include <unordered_set>
#include <memory>
#include <algorithm>
#include <optional>
#include "debug/Stream.h"
#include "SquidString.h"
#include "sbuf/SBuf.h"
#include "base/RefCount.h"
#include "base/TextException.h"
#include "base/AsyncCall.h"
#include "base/CbcPointer.h"
#include "cbdata.h"
#include "MemBuf.h"
#define private public
#define protected public
#include "base/AsyncJob.h"
#include "base/AsyncJobCalls.h"
#include "BodyPipe.h"
#include "clients/Client.h"
#include "http.h"
#include "FwdState.h"
#include "HttpRequest.h"
#include "Store.h"
#include "MemObject.h"
#include "errorpage.h"
#include "HttpReply.h"
#include "http/Stream.h"
#include "client_side_request.h"
#undef private
#undef protected
#include "base/AsyncCallQueue.h"
#include "comm.h"
#include "comm/Connection.h"
#include "comm/Write.h"
#include "comm/Read.h"
#include "IoStats.h"
#include "pconn.h"
#include "http/one/TeChunkedParser.h"
#include "CommCalls.h"
#include "fd.h"
#include "fde.h"
#include "HierarchyLogEntry.h"
#include "MasterXaction.h"
#include "PingData.h"
#include "StatHist.h"
#include "http/one/TeChunkedParser.h"
#include "mem/Allocator.h"
#include "mem/Pool.h"
#include "SquidConfig.h"
#include "StatCounters.h"
#include "http1.h"

// ---------------------------------------------------------------- environment stubs
void fatal(const char *) { vf_assert(0, "fatal() reached"); }
// cbdata.cc allocates through memory pools: a pool here is the plain heap
struct PlainPool: public Mem::Allocator {
    PlainPool(const char *l, size_t sz): Mem::Allocator(l, sz) {}
    size_t getStats(Mem::PoolStats &) override { return 0; }
    bool idleTrigger(int) const override { return false; }
    void clean(time_t) override {}
    void *allocate() override { return xcalloc(1, objectSize); }
    void deallocate(void *p) override { xfree(p); }
};
MemPools::MemPools() {}
MemPools &MemPools::GetInstance() { static MemPools *p = new MemPools; return *p; }
Mem::Allocator *MemPools::create(const char *label, size_t sz) { return new PlainPool(label, sz); }
#ifdef VF_BITCODE
// libstdc++'s out-of-line unordered_set growth policy (AsyncJob's registry of all jobs), interpreted build only
namespace std { namespace __detail {
size_t _Prime_rehash_policy::_M_next_bkt(size_t n) const { return n < 13 ? 13 : 2 * n + 1; }
pair<bool, size_t> _Prime_rehash_policy::_M_need_rehash(size_t nBkt, size_t nElt, size_t nIns) const
{ return nElt + nIns > nBkt ? make_pair(true, _M_next_bkt(nElt + nIns)) : make_pair(false, (size_t)0); }
} }
#endif

// ---------------------------------------------------------------- recorders standing in for comm, Store and FwdState
#define MAXBODY 40
static uint8_t stored[MAXBODY + 8];
static unsigned storedLen, storeWrites;
static const char *storedWhole;
static unsigned fwdCompleted, fwdFails, serverCloses, pooled;
static AsyncCall::Pointer *pendingRead;
static Comm::ConnectionPointer *serverConn;
// the origin's byte stream after the header block, and what the next read(2) will return
static uint8_t origin[MAXBODY + 48];
static unsigned originLen, originPos;
static unsigned nextReadLen;
static Comm::Flag nextReadResult;

void Comm::Read(const Comm::ConnectionPointer &conn, AsyncCall::Pointer &callback)
{
    vf_assert(conn != nullptr && conn->isOpen(), "reads are scheduled on an open server connection only");
    vf_assert(*pendingRead == nullptr, "one read at a time per connection (comm asserts this)");
    *pendingRead = callback;
}
bool Comm::MonitorsRead(int) { return *pendingRead != nullptr; }
Comm::Flag Comm::ReadNow(CommIoCbParams &params, SBuf &buf)
{
    if (nextReadResult != Comm::OK) { params.size = 0; params.flag = nextReadResult; return nextReadResult; }
    unsigned k = nextReadLen;
    vf_assert(params.size > 0, "ReadNow is asked for at least one byte");
    if (k > (unsigned)params.size) k = (unsigned)params.size;
    buf.append(reinterpret_cast<const char *>(origin) + originPos, k);
    originPos += k;
    params.size = k;
    params.flag = Comm::OK;
    return Comm::OK;
}
void comm_add_close_handler(int, AsyncCall::Pointer &) {}
void comm_remove_close_handler(int, AsyncCall::Pointer &) {}
void commSetConnTimeout(const Comm::ConnectionPointer &, time_t, AsyncCall::Pointer &) {}
void commUnsetConnTimeout(const Comm::ConnectionPointer &) {}
void _comm_close(int, char const *, int) { ++serverCloses; }
void fd_bytes(int, int, IoDirection) {}
StatCounters statCounter;
IoStats IOStats;
fde *fde::Table = nullptr; // fde.cc is not linked
ping_data::ping_data(): n_sent(0), n_recv(0), n_replies_expected(0), timeout(0), timedout(0), w_rtt(0), p_rtt(0)
{
    start.tv_sec = 0; start.tv_usec = 0; stop.tv_sec = 0; stop.tv_usec = 0;
}
const char *null_string = ""; // globals.cc is not linked
void StatHist::enumInit(unsigned int) {}
void StatHist::count(double) {}
// store.cc is not linked
void StoreEntry::lock(const char *) {}
int StoreEntry::unlock(const char *) { return 1; }
bool StoreEntry::isAccepting() const { return true; }
size_t StoreEntry::bytesWanted(Range<size_t> const aRange, bool) const { return aRange.end; }
void StoreEntry::write(StoreIOBuffer wb)
{
    vf_assert(wb.offset == (int64_t)storedLen, "store writes are contiguous and in order");
    vf_assert(storedLen + wb.length <= sizeof(stored), "harness: stored[] large enough");
    for (size_t i = 0; i < wb.length; ++i) stored[storedLen++] = (uint8_t)wb.data[i];
    ++storeWrites;
}
int64_t MemObject::endOffset() const { return storedLen; }
// FwdState.cc and pconn.cc are not linked: constructor/destructor defined here (members only), the rest are recorders
cbdata_type FwdState::CBDATA_FwdState = CBDATA_UNKNOWN;
PeeringActivityTimer::PeeringActivityTimer(const HttpRequestPointer &r): request(r) {}
PeeringActivityTimer::~PeeringActivityTimer() {}
FwdState::FwdState(const Comm::ConnectionPointer &client, StoreEntry *e, HttpRequest *r, const AccessLogEntryPointer &alp):
    entry(e), request(r), al(alp), err(nullptr), clientConn(client), start_t(0), n_tries(0), waitingForDispatched(false),
    pconnRace(raceImpossible), storedWholeReply_(nullptr), peeringTimer(r)
{
    flags.connected_okay = flags.dont_retry = flags.forward_completed = flags.destinationsFound = false;
}
FwdState::~FwdState() {}
void FwdState::fail(ErrorState *) { ++fwdFails; }
void FwdState::unregister(Comm::ConnectionPointer &) {}
void FwdState::handleUnregisteredServerEnd() {}
void FwdState::markStoredReplyAsWhole(const char *why) { storedWhole = why; }
void FwdState::complete() { ++fwdCompleted; }
PconnPool *fwdPconnPool;
void PconnPool::push(const Comm::ConnectionPointer &, const char *) { ++pooled; }
cbdata_type ErrorState::CBDATA_ErrorState = CBDATA_UNKNOWN;
ErrorState::ErrorState(err_type t, Http::StatusCode s, HttpRequest *, const AccessLogEntryPointer &): type(t), httpStatus(s) {}
ErrorDetail::Pointer MakeNamedErrorDetail(const char *) { return nullptr; }

template <class T> static inline T *rawObject() { return static_cast<T *>(xcalloc(1, sizeof(T))); }

// ---------------------------------------------------------------- reference chunked coder
enum { DONE = 0, MORE = 1, BAD = 2 };
struct Decoded { int st; unsigned consumed, len; uint8_t out[MAXBODY + 8]; };
// strict RFC 9112 7.1 without extensions and trailers: *( 1*HEXDIG CRLF data CRLF ) "0" CRLF CRLF
static Decoded refDecode(const uint8_t *x, const unsigned n)
{
    Decoded r; r.st = MORE; r.consumed = 0; r.len = 0;
    unsigned p = 0;
    for (;;) {
        if (p == n) return r;
        unsigned size = 0, nd = 0;
        for (; p < n && nd < 4; ++p, ++nd) {
            const uint8_t c = x[p];
            unsigned d;
            if (c >= '0' && c <= '9') d = c - '0'; else if (c >= 'a' && c <= 'f') d = c - 'a' + 10; else if (c >= 'A' && c <= 'F') d = c - 'A' + 10; else break;
            if (nd == 1 && size == 0) { r.st = BAD; return r; } // leading zero / 0x
            size = size * 16 + d;
        }
        if (p == n) return r;
        if (!nd || x[p] != '\r') { r.st = BAD; return r; }
        if (++p == n) return r;
        if (x[p] != '\n') { r.st = BAD; return r; }
        ++p;
        if (size == 0) break;
        for (unsigned i = 0; i < size; ++i) {
            if (p == n) return r;
            if (r.len >= sizeof(r.out)) { r.st = BAD; return r; }
            r.out[r.len++] = x[p++];
        }
        if (p == n) return r;
        if (x[p] != '\r') { r.st = BAD; return r; }
        if (++p == n) return r;
        if (x[p] != '\n') { r.st = BAD; return r; }
        ++p;
    }
    if (p == n) return r;
    if (x[p] != '\r') { r.st = BAD; return r; }
    if (++p == n) return r;
    if (x[p] != '\n') { r.st = BAD; return r; }
    r.st = DONE; r.consumed = p + 1;
    return r;
}
static unsigned putChunk(uint8_t *o, unsigned at, const uint8_t *data, const unsigned sz)
{
    if (sz >= 16) o[at++] = "0123456789abcdef"[sz >> 4];
    o[at++] = "0123456789ABCDEF"[sz & 15];
    o[at++] = '\r'; o[at++] = '\n';
    for (unsigned i = 0; i < sz; ++i) o[at++] = data[i];
    if (sz) { o[at++] = '\r'; o[at++] = '\n'; }
    return at;
}

// ---------------------------------------------------------------- (A) the server side reading a reply body
enum Framing { BY_LENGTH, BY_CHUNKS, BY_EOF };
static bool onlyBodilessExtra = false; // set by c01_known_bodiless_extra_bytes only
static bool onlyOverread = false;      // set by c01_known_overread_pooled only
struct Exchange {
    Framing framing;
    unsigned n;                  // body the origin means to send
    unsigned declared;           // Content-Length value (BY_LENGTH)
    uint8_t body[MAXBODY];
    bool segEnd[MAXBODY + 49];   // chunked: where a segment longer than 2 bytes may end
    unsigned frameEnd;           // origin[0..frameEnd) is the complete framed body; one more byte follows (next response / garbage)
    bool headRequest, noBodyStatus, requestSent, keepaliveRequested, replyKeepAlive;
    HttpStateData *hs;
    CbcPointer<HttpStateData> hsAlive;
    HttpRequest *request;
    HttpReply *rep;
    FwdState *fwd;
    bool sawEof, sawError;

    void setup(const Framing f, const unsigned bodyLen, const unsigned cut)
    {
        http1Config(1, 65536, 65536);
        Config.readAheadGap = 16 * 1024;
        framing = f; n = bodyLen;
        storedLen = storeWrites = fwdCompleted = fwdFails = serverCloses = pooled = 0; storedWhole = nullptr;
        originLen = originPos = 0; sawEof = sawError = false;
        pendingRead = new AsyncCall::Pointer;
        for (unsigned i = 0; i < n; ++i) body[i] = vf_nondet_u8("body");
        for (unsigned i = 0; i < sizeof(segEnd); ++i) segEnd[i] = framing != BY_CHUNKS;
        if (framing == BY_CHUNKS) { // chunks [0,cut) [cut,n) + last-chunk, no trailers
            if (cut) { originLen = putChunk(origin, originLen, body, cut); segEnd[originLen - 2] = segEnd[originLen] = true; }
            if (n > cut) { originLen = putChunk(origin, originLen, body + cut, n - cut); segEnd[originLen - 2] = segEnd[originLen] = true; }
            originLen = putChunk(origin, originLen, nullptr, 0);
            segEnd[originLen] = true; // between last-chunk and the final CRLF
            origin[originLen++] = '\r'; origin[originLen++] = '\n';
        } else
            for (unsigned i = 0; i < n; ++i) origin[originLen++] = body[i];
        frameEnd = originLen;
        origin[originLen++] = vf_nondet_u8("afterBody");
        segEnd[frameEnd] = segEnd[originLen] = true;

        fd_table = static_cast<fde *>(xcalloc(8, sizeof(fde)));
        fwdPconnPool = rawObject<PconnPool>();
        serverConn = new Comm::ConnectionPointer(new Comm::Connection);
        (*serverConn)->fd = 5;
        request = new HttpRequest(MasterXaction::MakePortful(nullptr));
        request->lock();
        headRequest = framing == BY_LENGTH && vf_concretize(vf_range(0, 1, "headRequest")); // HEAD: with the Content-Length entry only
        request->method = HttpRequestMethod(headRequest ? Http::METHOD_HEAD : Http::METHOD_GET);
        StoreEntry *entry = rawObject<StoreEntry>();
        entry->mem_obj = rawObject<MemObject>();
        fwd = new FwdState(nullptr, entry, request, nullptr);
        fwd->lock();
        fwd->serverConn = *serverConn;
        hs = new HttpStateData(fwd);
        hsAlive = hs;
        hs->started_ = true;
        // the request has been sent (or not yet completely: request body still flowing) with or without "Connection: keep-alive"
        hs->flags.request_sent = requestSent = vf_bool("requestSent");
        hs->flags.keepalive = keepaliveRequested = vf_bool("keepaliveRequested");

        // ---- what processReplyHeader() leaves after parsing the header block
        rep = new HttpReply;
        rep->lock(); // never destroyed
        const unsigned status = vf_range(200, 599, "status");
        rep->sline.set(Http::ProtocolVersion(1, 1), static_cast<Http::StatusCode>(status));
        noBodyStatus = status == 204 || status == 304;
        if (framing == BY_LENGTH) {
            // the origin may send fewer bytes than it declares (and then close) or more
            declared = (unsigned)vf_concretize(vf_range(n ? n - 1 : 0, n + 1, "declaredLength"));
            rep->header.putInt64(Http::HdrType::CONTENT_LENGTH, declared);
        } else if (framing == BY_CHUNKS)
            rep->header.putStr(Http::HdrType::TRANSFER_ENCODING, "chunked");
        const unsigned conn = (unsigned)vf_concretize(vf_range(0, framing == BY_LENGTH ? 2 : 1, "connectionHeader"));
        if (conn) rep->header.putStr(Http::HdrType::CONNECTION, conn == 1 ? "close" : "keep-alive");
        rep->hdrCacheInit();
        replyKeepAlive = rep->keep_alive;
        hs->flags.chunked = rep->header.chunked();
        if (hs->flags.chunked) hs->httpChunkDecoder = new Http1::TeChunkedParser;
        hs->setVirginReply(rep);
        hs->flags.headers_parsed = true;
        // body bytes that arrived in the same read as the header block: "payloadSeen = inBuf.length()"
        const unsigned withSym = vf_range(0, originLen, "bytesWithHeader");
        vf_assume(withSym <= 2 || segEnd[withSym]);
        const unsigned with = (unsigned)vf_concretize(withSym);
        // KNOWN FINDINGS (known_findings.json). Each class is examined by its own entry (c01_known_*), which sets the flag and
        // is restricted to exactly that class; every other entry excludes both classes.
        //  C01-bodiless-extra-bytes-stored: bytes that follow the header block of a reply that cannot have a body (204, 304,
        //    reply to HEAD) are written to the store as body bytes (writeReplyBody(): truncateVirginBody() returns early when
        //    !expectingBody()).
        //  C01-overread-connection-pooled: bytes read beyond the end of a complete response with Content-Length: 0 or chunked
        //    framing are dropped and the connection is still returned to the idle pool (persistentConnStatus() guards this
        //    with payloadTruncated only for Content-Length > 0).
        const bool bodiless = headRequest || noBodyStatus;
        const bool extraAfterBodiless = bodiless && with > 0;
        const bool overread = !bodiless && ((framing == BY_LENGTH && declared == 0 && with > 0) || (framing == BY_CHUNKS && with > frameEnd));
        vf_assume(extraAfterBodiless == onlyBodilessExtra);
        vf_assume(overread == onlyOverread);
        hs->inBuf.append(reinterpret_cast<const char *>(origin), with);
        originPos = with;
        hs->payloadSeen = hs->inBuf.length();
        // processReply() continues with the body (adaptOrFinalizeReply(): no adaptation; header hooks are C11's kernel)
        CallJobHere(11, 5, hsAlive, HttpStateData, processReplyBody);
        AsyncCallQueue::Instance().fire();
        check();
    }
    void completeRead(const Comm::Flag how, const unsigned len)
    {
        AsyncCall::Pointer cb = *pendingRead;
        *pendingRead = nullptr;
        nextReadResult = how; nextReadLen = len;
        CommIoCbParams &params = GetCommParams<CommIoCbParams>(cb);
        params.fd = (*serverConn)->fd;
        params.conn = *serverConn;
        params.flag = Comm::OK; // Comm::Read() callbacks report readiness; the outcome comes from ReadNow()
        ScheduleCallHere(cb);
        AsyncCallQueue::Instance().fire();
    }
    // one network event on the server connection, if the server side is waiting for one
    void step()
    {
        if (*pendingRead == nullptr) return;
        enum { DATA, END, ERROR, AGAIN };
        unsigned ev[4], nev = 0;
        if (originPos < originLen) ev[nev++] = DATA;
        ev[nev++] = END; ev[nev++] = ERROR; ev[nev++] = AGAIN;
        switch (ev[vf_choose(nev, "event")]) {
        case DATA: {
            // every segment size; for chunked bodies (framing segmentation is C24's subject) 1 or 2 bytes, or up to the end of a
            // chunk's data, of a chunk, of the last-chunk line, of the body, or of everything the origin has sent
            const unsigned ks = vf_range(1, originLen - originPos, "segment");
            vf_assume(ks <= 2 || segEnd[originPos + ks]);
            if (framing == BY_CHUNKS) vf_assume(originPos + ks <= frameEnd); // C01-overread-connection-pooled (see setup()): no later read goes beyond the final CRLF either
            completeRead(Comm::OK, (unsigned)vf_concretize(ks));
            break; }
        case END: sawEof = true; completeRead(Comm::ENDFILE, 0); break;
        case ERROR: sawError = true; completeRead(Comm::COMM_ERROR, 0); break;
        case AGAIN: completeRead(Comm::INPROGRESS, 0); break;
        }
        check();
    }
    void check()
    {
        const bool alive = hsAlive.valid();
        const unsigned got = originPos; // origin bytes read so far
        const bool expectBody = !headRequest && !noBodyStatus;
        // ---- what the framing says
        unsigned bodyGot = 0;      // body bytes among them
        bool frameComplete = false;
        unsigned frameLen = 0;     // origin bytes that belong to this response (meaningful once frameComplete)
        if (!expectBody) frameComplete = true;
        else if (framing == BY_LENGTH) { bodyGot = got < declared ? got : declared; frameComplete = got >= declared; frameLen = declared; }
        else if (framing == BY_EOF) { bodyGot = got; frameComplete = sawEof; frameLen = got; }
        else {
            const Decoded d = refDecode(origin, got);
            bodyGot = d.len; frameComplete = d.st == DONE; frameLen = d.consumed;
        }
        // ---- stored bytes
        if (!expectBody)
            vf_assert(storedLen == 0, "a response that cannot have a body stores no body bytes");
        if (expectBody) {
            vf_assert(storedLen <= bodyGot, "nothing is stored that the origin has not sent as body");
            for (unsigned i = 0; i < storedLen; ++i) vf_assert(stored[i] == (framing == BY_CHUNKS ? body[i] : origin[i]), "stored bytes are the origin's body bytes, in order");
            if (alive || fwdCompleted) vf_assert(storedLen == bodyGot || sawError, "every body byte received so far has been stored");
        }
        // ---- how it ends
        if (storedWhole) vf_assert(frameComplete, "the reply is marked as stored whole only when its framing says it is complete");
        if (fwdCompleted) {
            vf_assert(fwdCompleted == 1, "forwarding completes once");
            if (expectBody && frameComplete && !sawError) vf_assert(storedWhole != nullptr && !fwdFails, "a completely received body is reported whole, without failure");
            if (!frameComplete) vf_assert(!storedWhole, "an incomplete body is never reported whole");
            if (!frameComplete && sawEof) vf_assert(fwdFails > 0, "a body cut short by EOF is reported as a failure");
        }
        if (sawError) vf_assert(fwdFails > 0 && !storedWhole, "a read error fails the exchange");
        if (pooled) {
            vf_assert(pooled == 1 && fwdCompleted && frameComplete && !sawEof && !sawError, "the connection is reused only after a complete message");
            vf_assert(got == frameLen, "the connection is reused only if nothing beyond the end of the response was read");
            if (expectBody && framing == BY_EOF) vf_assert(false, "a close-delimited body never leaves a reusable connection");
            vf_assert(keepaliveRequested && requestSent && replyKeepAlive, "reuse needs keep-alive on both sides and a completely sent request");
            vf_reach("pooled");
        }
        if (fwdCompleted) vf_assert(!alive && (pooled || serverCloses == 1), "after completion the job is gone and the connection closed or pooled");
        if ((sawEof || sawError) ) vf_assert(fwdCompleted || fwdFails, "EOF or error ends the exchange");
        if (fwdCompleted && storedWhole && expectBody) vf_reach("whole");
        if (fwdCompleted && !expectBody) vf_reach("bodiless");
        if (fwdFails && sawEof) vf_reach("premature-eof");
        if (sawError) vf_reach("read-error");
        if (!fwdCompleted && !fwdFails) vf_reach("in-progress");
    }
};

#ifdef VF_THOROUGH
#define NREADS 4
#define NB 4
#else
#define NREADS 3
#define NB 3
#endif
#define NBC (NB - 1) // chunked bodies
static void exchange(const Framing f)
{
    vf_quiet();
    Exchange x;
    const unsigned n = (unsigned)vf_concretize(vf_range(0, f == BY_CHUNKS ? NBC : NB, "bodyLen"));
    const unsigned cut = f == BY_CHUNKS && n > 1 ? (unsigned)vf_concretize(vf_range(1, n, "chunkCut")) : n;
    x.setup(f, n, cut);
    for (unsigned i = 0; i < NREADS; ++i) x.step();
    vf_observe("stored", storedLen); vf_observe("completed", fwdCompleted); vf_observe("fails", fwdFails); vf_observe("whole", storedWhole != nullptr);
    WITNESS_POINT();
}
// KNOWN FINDING C01-bodiless-extra-bytes-stored: 204 / 304 / reply to HEAD with 1..2 bytes following the header block
extern "C" void c01_known_bodiless_extra_bytes(void)
{
    vf_quiet();
    onlyBodilessExtra = true;
    Exchange x;
    x.setup(BY_LENGTH, 1, 1); // setup() ends with the strict check()
}
// KNOWN FINDING C01-overread-connection-pooled: "Content-Length: 0" + 1 more byte, or a complete chunked body + 1 more byte,
// all arriving together with the header block
extern "C" void c01_known_overread_pooled(void)
{
    vf_quiet();
    onlyOverread = true;
    Exchange x;
    if (vf_concretize(vf_range(0, 1, "chunked"))) x.setup(BY_CHUNKS, 1, 1);
    else x.setup(BY_LENGTH, 0, 0);
}
extern "C" void c01_body_length(void) { exchange(BY_LENGTH); }
extern "C" void c01_body_chunked(void) { exchange(BY_CHUNKS); }
extern "C" void c01_body_eof(void) { exchange(BY_EOF); }

// ---------------------------------------------------------------- (B) the end-of-message decision over symbolic state
extern "C" void c01_status(void)
{
    vf_quiet();
    Exchange x;
    x.setup(BY_EOF, 0, 0); // a live HttpStateData waiting for body bytes (any status; HEAD excluded there, set below)
    vf_assume(x.hsAlive.valid() && !fwdCompleted); // (bodiless statuses have completed already: their decision is re-taken below on a fresh state)
    HttpStateData *hs = x.hs;
    HttpReply *rep = x.rep;
    // every input persistentConnStatus()/statusIfComplete() read, symbolic
    const bool head = vf_bool("head");
    x.request->method = HttpRequestMethod(head ? Http::METHOD_HEAD : Http::METHOD_GET);
    const unsigned ver = vf_range(0, 2, "version"); // HTTP/0.9, 1.0, 1.1
    const unsigned status = vf_range(100, 599, "status");
    rep->sline.set(ver == 0 ? Http::ProtocolVersion(0, 9) : ver == 1 ? Http::ProtocolVersion(1, 0) : Http::ProtocolVersion(1, 1), static_cast<Http::StatusCode>(status));
    const int64_t clen = (int64_t)vf_nondet_u64("contentLength");
    vf_assume(clen >= -1);
    rep->content_length = clen;
    rep->keep_alive = vf_bool("replyKeepAlive");
    const bool closeHeader = vf_bool("connectionClose"); // the Connection header set up by setup(): none or close
    vf_assume(closeHeader == rep->header.has(Http::HdrType::CONNECTION));
    hs->eof = vf_bool("eof");
    hs->lastChunk = vf_bool("lastChunk");
    hs->flags.chunked = vf_bool("chunked");
    hs->flags.keepalive = vf_bool("keepalive");
    hs->flags.forceClose = vf_bool("forceClose");
    hs->flags.request_sent = vf_bool("requestSent2");
    const int64_t seen = (int64_t)vf_nondet_u64("payloadSeen"), truncated = (int64_t)vf_nondet_u64("payloadTruncated");
    vf_assume(seen >= 0 && truncated >= 0 && truncated <= seen);
    hs->payloadSeen = seen; hs->payloadTruncated = truncated;
    const bool open = vf_bool("serverConnectionOpen");
    if (!open) (*serverConn)->fd = -1;
    vf_assume(!hs->flags.chunked || clen == -1); // a chunked reply has no Content-Length left (HttpHeader::parse removes it)

    const auto st = hs->persistentConnStatus();

    // reference: when is the end of the message known?
    const bool sizeUnknown = ver == 0 || (!head && status != 204 && status != 304 && status >= 200 && clen < 0);
    const bool noBody = ver != 0 && (head || status == 204 || status == 304 || status < 200 || clen == 0);
    const bool endKnown = hs->eof || !open || (hs->lastChunk && hs->flags.chunked) || noBody || (!sizeUnknown && seen >= clen);
    vf_assert((st != HttpStateData::INCOMPLETE_MSG) == endKnown, "the message counts as complete exactly when EOF, the last-chunk, a bodiless reply or the declared length has been seen");
    if (st == HttpStateData::COMPLETE_PERSISTENT_MSG) {
        vf_assert(!hs->eof && open, "no reuse after EOF or closure");
        vf_assert(!closeHeader && hs->flags.keepalive && !hs->flags.forceClose && hs->flags.request_sent && rep->keep_alive, "reuse needs keep-alive on both sides, no Connection: close, no ban, and a completely sent request");
        if (!noBody && !(hs->lastChunk && hs->flags.chunked)) vf_assert(truncated == 0, "no reuse after reading beyond the declared length");
        vf_reach("persistent");
    } else if (st == HttpStateData::COMPLETE_NONPERSISTENT_MSG)
        vf_reach("complete-close");
    else
        vf_reach("incomplete");
    vf_observe("st", st);
    WITNESS_POINT();
}

// ---------------------------------------------------------------- (C) client-side chunking
#define WIRE 96
static void chunkRoundTrip(const unsigned nbuf, const unsigned *lens, const bool withLast)
{
    HttpRequest *request = new HttpRequest(MasterXaction::MakePortful(nullptr));
    request->lock();
    request->flags.chunkedReply = true;
    ClientHttpRequest *http = rawObject<ClientHttpRequest>();
    *const_cast<HttpRequest **>(&http->request) = request;
    Http::Stream *stream = new Http::Stream(nullptr, http);
    stream->lock();
    uint8_t body[MAXBODY], wire[WIRE];
    unsigned total = 0, wl = 0;
    for (unsigned b = 0; b < nbuf + (withLast ? 1 : 0); ++b) {
        const unsigned len = b < nbuf ? lens[b] : 0; // the empty buffer is how Http1::Server::handleReply() asks for the last-chunk
        for (unsigned i = 0; i < len; ++i) body[total + i] = vf_nondet_u8("body");
        StoreIOBuffer bodyData(len, total, reinterpret_cast<char *>(body + total));
        MemBuf mb;
        mb.init();
        stream->packChunk(bodyData, mb);
        vf_assert(wl + mb.contentSize() <= WIRE, "harness: wire[] large enough");
        for (int i = 0; i < mb.contentSize(); ++i) wire[wl++] = (uint8_t)mb.content()[i];
        mb.clean();
        total += len;
        vf_assert(http->out.offset == (int64_t)total, "sent-bytes accounting follows the chunks");
    }
    // the strict reference decoder
    const Decoded d = refDecode(wire, wl);
    vf_assert(d.st == (withLast ? DONE : MORE), "chunks + last-chunk form exactly one complete chunked body; without the last-chunk the body is visibly incomplete");
    vf_assert(d.len == total, "decoded length equals the bytes handed to packChunk()");
    for (unsigned i = 0; i < total; ++i) vf_assert(d.out[i] == body[i], "decoded bytes equal the bytes handed to packChunk(), in order");
    if (withLast) vf_assert(d.consumed == wl, "nothing follows the last-chunk");
    // the real decoder (what a downstream Squid would do)
    http1Config(1, 65536, 65536);
    Http1::TeChunkedParser p;
    MemBuf out;
    out.init();
    p.setPayloadBuffer(&out);
    SBuf in;
    in.append(reinterpret_cast<const char *>(wire), wl);
    bool done = false, threw = false;
    try { done = p.parse(in); } catch (...) { threw = true; }
    vf_assert(!threw, "TeChunkedParser accepts what packChunk() produces");
    vf_assert(done == withLast && (withLast || p.needsMoreData()), "TeChunkedParser sees the end exactly when the last-chunk was sent");
    vf_assert((unsigned)out.contentSize() == total, "TeChunkedParser decodes all the bytes");
    for (unsigned i = 0; i < total; ++i) vf_assert((uint8_t)out.content()[i] == body[i], "TeChunkedParser decodes the bytes handed to packChunk()");
    vf_observe("wire", wl); vf_observe("total", total);
    vf_reach(withLast ? "complete" : "open");
    WITNESS_POINT();
}
#ifdef VF_THOROUGH
#define CBUF 4
#else
#define CBUF 3
#endif
extern "C" void c01_chunk_small(void)
{
    vf_quiet();
    const unsigned nbuf = (unsigned)vf_concretize(vf_range(0, 3, "buffers"));
    unsigned lens[3];
    for (unsigned i = 0; i < nbuf; ++i) lens[i] = (unsigned)vf_concretize(vf_range(1, CBUF, "bufLen"));
    chunkRoundTrip(nbuf, lens, vf_concretize(vf_range(0, 1, "lastChunkSent")));
}
extern "C" void c01_chunk_hex(void)
{
    vf_quiet();
#ifdef VF_THOROUGH
    const unsigned len = (unsigned)vf_concretize(vf_range(9, 36, "bufLen"));
#else
    static const unsigned sizes[5] = {9, 10, 15, 16, 31};
    const unsigned len = sizes[vf_concretize(vf_range(0, 4, "bufLenIdx"))];
#endif
    const unsigned lens[2] = {len, 2};
    chunkRoundTrip((unsigned)vf_concretize(vf_range(1, 2, "buffers")), lens, vf_concretize(vf_range(0, 1, "lastChunkSent")));
}
