// C33 (kernel): strings under client control appear in generated error pages only HTML-escaped.
//
// Real code encoded: src/errorpage.cc ErrorState::compile() / compileLegacyCode() (every %code that can carry client
// data), src/html/Quoting.cc html_quote(), and what those codes call to obtain the datum: HttpRequest::pack /
// effectiveRequestUri / canonicalCleanUrl, AnyP::Uri::absolute/authority/absolutePath, urlCanonicalFakeHttps,
// urlCanonicalCleanWithoutRequest, HttpHeader::packInto, wordlistCat, Auth::UserRequest::username.
//
// Symbolic bytes inside an otherwise concrete, markup-free datum, in two modes:
//   "pair": <prefix> b 'a' b with both b any printable ASCII byte (0x20..0x7e; includes all five metacharacters)
//   "any":  <prefix> b 'a'   with b any byte except NUL (html_quote() alone maps a byte to one of 164 different outputs,
//           so a fully symbolic byte costs 164 paths; hence only one of them at a time)
// Template: "[%X]" for one %code X per path (concrete, markup-free), compiled by the real ErrorState::compile().
// Oracle: the compiled output contains no raw < > " ' and every & starts one of the entities html_quote() produces
// (&lt; &gt; &quot; &amp; &apos; &#N;). Template and concrete datum parts carry no markup, so any raw metacharacter in the
// output would be a client byte that was copied unescaped.
#include "squid.h"
#include <sstream>
#include <functional>
#include <chrono>
#include <atomic>
#include <iostream>
#include <string>
#include <vector>
#include <list>
#include <map>
#include <unordered_map>
#include <memory>
#include <optional>
#include <algorithm>
#include "debug/Stream.h"
#include "SquidString.h"
#include "sbuf/SBuf.h"
#include "base/RefCount.h"
#include "base/TextException.h"
#include "cbdata.h"
#include "MemBuf.h"
#define private public
#define protected public
#include "errorpage.h"
#include "HttpRequest.h"
#include "MasterXaction.h"
#include "anyp/Uri.h"
#include "auth/User.h"
#include "auth/UserRequest.h"
#undef private
#undef protected
#include "html/Quoting.h"
#include "wordlist.h"
#include "SquidConfig.h"
#include "StatHist.h"
#include "common.h"

// peer_select.cc is not linked: HierarchyLogEntry (a member of every HttpRequest) embeds a ping_data, whose constructor lives there
#include "PingData.h"
ping_data::ping_data(): n_sent(0), n_recv(0), n_replies_expected(0), timeout(0), timedout(0), w_rtt(0), p_rtt(0)
{
    start.tv_sec = 0; start.tv_usec = 0; stop.tv_sec = 0; stop.tv_usec = 0;
}
// StatHist.cc (floating point histograms of per-header statistics) is not linked
void StatHist::enumInit(unsigned int) {}
void StatHist::count(double) {}

// ---------------------------------------------------------------- data with symbolic bytes
enum Mode { PAIR, ANY, TRIPLE };
static char *datum(const char *prefix, const Mode mode, const char mid = 'a')
{
    const size_t pl = strlen(prefix);
    char *s = (char *)xcalloc(pl + 4, 1);
    memcpy(s, prefix, pl);
    if (mode == TRIPLE) {
        // three bytes over class representatives (plain, metacharacters, UTF-8 continuation and 2-/3-/4-byte lead bytes), every combination:
        // a metacharacter stays neutralised whatever precedes it
        for (unsigned i = 0; i < 3; ++i) {
            const unsigned char b = vf_nondet_u8("ctx");
            vf_assume(b == 'a' || b == '<' || b == '"' || b == '&' || b == 0x80 || b == 0xc2 || b == 0xe2 || b == 0xf0);
            s[pl + i] = (char)vf_concretize(b);
        }
    } else if (mode == ANY) {
        s[pl] = (char)vf_nondet_u8("any"); vf_assume(s[pl] != 0);
        s[pl + 1] = mid;
    } else {
        s[pl] = (char)vf_nondet_u8("printable"); vf_assume(s[pl] >= 0x20 && s[pl] <= 0x7e);
        s[pl + 1] = mid;
        s[pl + 2] = (char)vf_nondet_u8("printable"); vf_assume(s[pl + 2] >= 0x20 && s[pl + 2] <= 0x7e);
    }
    return s;
}

// ---------------------------------------------------------------- oracle
static bool startsWith(const char *s, const char *p) { return !strncmp(s, p, strlen(p)); }
static void checkEscaped(const SBuf &out)
{
    SBuf copy(out);
    const char *o = copy.c_str();
    const size_t n = out.length();
    vf_assert(strlen(o) == n, "no NUL inside the page");
    bool entity = false;
    for (size_t i = 0; i < n; ++i) {
        const char c = o[i];
        vf_assert(c != '<' && c != '>' && c != '"' && c != '\'', "no raw < > \" ' from client data in the error page");
        if (c == '&') {
            bool ok = startsWith(o + i, "&lt;") || startsWith(o + i, "&gt;") || startsWith(o + i, "&quot;") ||
                      startsWith(o + i, "&amp;") || startsWith(o + i, "&apos;");
            if (!ok && o[i + 1] == '#') {
                size_t k = i + 2; unsigned v = 0;
                while (o[k] >= '0' && o[k] <= '9' && k < i + 5) v = v * 10 + (o[k++] - '0');
                ok = k > i + 2 && o[k] == ';' && v < 256;
            }
            vf_assert(ok, "every & in the error page starts an entity (no raw & from client data)");
            entity = true;
        }
    }
    vf_observe("len", n);
    vf_reach(entity ? "escaped" : "plain");
}

// ---------------------------------------------------------------- objects
// ErrorState without its constructor chain: zeroed memory (all pointers nil, optional disengaged, type/page_id ERR_NONE)
static ErrorState *rawError()
{
    return static_cast<ErrorState *>(xcalloc(1, sizeof(ErrorState)));
}

// A real HttpRequest (real constructors: %R calls virtual member functions); it is never destroyed.
static HttpRequest *newRequest(ErrorState *e)
{
    MasterXaction::Pointer mx = MasterXaction::MakePortful(nullptr);
    HttpRequest *r = new HttpRequest(mx);
    r->method = HttpRequestMethod(Http::METHOD_GET);
    r->url.scheme_ = AnyP::UriScheme(AnyP::PROTO_HTTP);
    strcpy(r->url.host_, "h.example");
    r->url.port_ = 80;
    r->url.path_ = SBuf("/p");
    e->request = r;     // RefCount assignment into the zeroed ErrorState
    r->lock();          // never destroyed
    return r;
}

// credentials user name (%a). Auth::UserRequest/Auth::User are abstract: minimal concrete subclasses, real base classes.
struct HarnessUser: public Auth::User {
    MEMPROXY_CLASS(HarnessUser);
public:
    HarnessUser(): Auth::User(nullptr, nullptr) {}
    int32_t ttl() const override { return 3600; }
    void addToNameCache() override {}
};
struct HarnessUserRequest: public Auth::UserRequest {
    MEMPROXY_CLASS(HarnessUserRequest);     // Auth::UserRequest::operator new refuses direct allocation
public:
    bool authenticated() const override { return 1; }
    void authenticate(HttpRequest *, ConnStateData *, Http::HdrType) override {}
    Auth::Direction module_direction() override { return Auth::CRED_VALID; }
    void startHelperLookup(HttpRequest *, AccessLogEntry::Pointer &, AUTHCB *, void *) override {}
    const char *credentialsStr() override { return ""; }
    const char *connLastHeader() override { return nullptr; }
};

// ---------------------------------------------------------------- where the client's bytes sit x the %codes that show them
struct Variant { const char *label; const char *codes; };
static const Variant variants[] = {
    /* 0*/ {"url-without-request", "Uu"},   // invalid request / invalid URL errors: ErrorState::url is all there is
    /* 1*/ {"ftp-request", "f"},
    /* 2*/ {"ftp-reply", "F"},
    /* 3*/ {"ftp-server-msg", "g"},
    /* 4*/ {"ftp-cwd-msg", "z"},
    /* 5*/ {"dns-error", "z"},
    /* 6*/ {"err-msg", "Z"},
    /* 7*/ {"host", "HUuR"},
    /* 8*/ {"path-query", "UuR"},
    /* 9*/ {"method", "MR"},
    /*10*/ {"scheme", "PUu"},
    /*11*/ {"connect-host", "UuH"},
    /*12*/ {"forwarding-host", "H"},
    /*13*/ {"header-value", "R"},
    /*14*/ {"header-name", "R"},
    /*15*/ {"user-name", "a"},
};
#define NVARIANTS (sizeof(variants) / sizeof(variants[0]))

static void place(ErrorState *e, const unsigned v, const Mode mode)
{
    HttpRequest *r = v >= 7 ? newRequest(e) : nullptr;
    switch (v) {
    case 0: e->url = datum("http://h/", mode); break;
    case 1: e->ftp.request = datum("RETR ", mode); break;
    case 2: e->ftp.reply = datum("550 ", mode); break;
    case 3: wordlistAdd(&e->ftp.server_msg, datum("550-", mode)); wordlistAdd(&e->ftp.server_msg, "550 end"); break;
    case 4: e->ftp.cwd_msg = datum("250 ", mode); break;
    case 5: ::new (static_cast<void *>(&e->dnsError)) std::optional<SBuf>(SBuf(datum("no ", mode))); break;
    case 6: e->err_msg = datum("msg ", mode); break;
    case 7: strcpy(r->url.host_, datum("h", mode)); break;
    case 8: r->url.path_ = SBuf(datum("/", mode, '?')); break;                     // one byte in the path, one in the query
    case 9: r->method.theMethod = Http::METHOD_OTHER; r->method.theImage = SBuf(datum("M", mode)); break;
    case 10: r->url.scheme_ = AnyP::UriScheme(AnyP::PROTO_UNKNOWN, datum("s", mode)); break;
    case 11: r->method.theMethod = Http::METHOD_CONNECT; r->url.port_ = 443; strcpy(r->url.host_, datum("h", mode)); break;
    case 12: strcpy(r->hier.host, datum("p", mode)); break;
    case 13: r->header.putStr(Http::HdrType::USER_AGENT, datum("u", mode)); break;
    case 14: r->header.addEntry(new HttpHeaderEntry(Http::HdrType::OTHER, SBuf(datum("X-", mode)), "v")); break;
    default: {
        Auth::User::Pointer u = new HarnessUser;
        u->username(datum("u", mode));
        Auth::UserRequest::Pointer ur = new HarnessUserRequest;
        ur->user(u);
        u->lock(); ur->lock();  // never destroyed
        r->auth_user_request = ur;
    } break;
    }
}

static void run(const unsigned first, const unsigned last, const Mode mode, const bool firstCodeOnly = false)
{
    vf_quiet();
    AnyP::UriScheme::Init();
    starting_up = 0;                      // a template error would be swallowed, as at run time
    Config.onoff.strip_query_terms = 1;   // squid.conf default
    visible_appname_string = "squid";
    const unsigned v = first + vf_choose(last - first + 1, "variant");
    const char *codes = variants[v].codes;
    const char code = firstCodeOnly ? codes[0] : codes[vf_choose((uint32_t)strlen(codes), "code")];
    ErrorState *e = rawError();
    place(e, v, mode);
    char tmpl[8] = "[%X]";
    tmpl[2] = code;
    const SBuf out = e->compile(tmpl, false, true);
    vf_assert(out.length() >= 2 && out[0] == '[' && out[out.length() - 1] == ']', "template text is kept");
    checkEscaped(out);
    vf_reach(variants[v].label);
    WITNESS_POINT();
}

// ---------------------------------------------------------------- entries
extern "C" void c33_pair_norequest(void) { run(0, 6, PAIR); }
extern "C" void c33_pair_uri(void) { run(7, 10, PAIR); }
extern "C" void c33_pair_other(void) { run(11, 15, PAIR); }
// both tiers: 3 context bytes over class representatives
extern "C" void c33_ctx_url(void) { run(0, 0, TRIPLE, true); }          // %U without request, 3 context bytes
extern "C" void c33_ctx_user(void) { run(15, 15, TRIPLE, true); }       // %a, 3 context bytes
#ifdef VF_THOROUGH
// thorough: every place, with the first %code listed for it
extern "C" void c33_any_norequest(void) { run(0, 6, ANY, true); }
extern "C" void c33_any_uri(void) { run(7, 10, ANY, true); }
extern "C" void c33_any_other(void) { run(11, 15, ANY, true); }
#else
// quick: one representative %code for four of the places
extern "C" void c33_any_url(void) { run(0, 0, ANY, true); }         // %U without request
extern "C" void c33_any_host(void) { run(7, 7, ANY, true); }        // %H
extern "C" void c33_any_header_user(void) { run(13, 13, ANY, true); }    // %R with a header value
extern "C" void c33_any_user(void) { run(15, 15, ANY, true); }      // %a
#endif
