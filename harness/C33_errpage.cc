// C33 (kernel): strings under client control appear in generated error pages only HTML-escaped.
//
// Real code encoded: src/errorpage.cc ErrorState::compile() / compileLegacyCode() (every %code that can carry client
// data), src/html/Quoting.cc html_quote(), and what those codes call to obtain the datum: HttpRequest::pack /
// effectiveRequestUri / canonicalCleanUrl, AnyP::Uri::absolute/authority/absolutePath, urlCanonicalFakeHttps,
// urlCanonicalCleanWithoutRequest, HttpHeader::packInto, wordlistCat, Auth::UserRequest::username.
//
// Symbolic: two bytes inside an otherwise concrete, markup-free datum: the first may be any byte except NUL, the second any
// printable ASCII byte (0x20..0x7e; includes all five metacharacters). html_quote() alone maps a byte to one of 164
// different outputs, which is why only one of the two bytes ranges over all values.
// Template: "[%X]" for one %code X per path (concrete, markup-free), compiled by the real ErrorState::compile().
// Oracle: the compiled output contains no raw < > " ' and every & starts one of the entities html_quote() produces
// (&lt; &gt; &quot; &amp; &apos; &#N;). Template and concrete datum parts carry no markup, so any raw metacharacter in the
// output would be a client byte that was copied unescaped.
#include "squid.h"
#include <sstream>
#include <functional>
#include <chrono>
#include <atomic>
#include <iostream>
#include <string>
#include <vector>
#include <list>
#include <map>
#include <unordered_map>
#include <memory>
#include <optional>
#include <algorithm>
#include "debug/Stream.h"
#include "SquidString.h"
#include "sbuf/SBuf.h"
#include "base/RefCount.h"
#include "base/TextException.h"
#include "cbdata.h"
#include "MemBuf.h"
#define private public
#define protected public
#include "errorpage.h"
#include "HttpRequest.h"
#include "anyp/Uri.h"
#include "auth/User.h"
#include "auth/UserRequest.h"
#undef private
#undef protected
#include "html/Quoting.h"
#include "wordlist.h"
#include "SquidConfig.h"
#include "StatHist.h"
#include "common.h"

// StatHist.cc (floating point histograms of per-header statistics) is not linked
void StatHist::enumInit(unsigned int) {}
void StatHist::count(double) {}

// ---------------------------------------------------------------- data with symbolic bytes
// '\x01' = any byte except NUL, '\x02' = any printable ASCII byte; the rest of the literal is concrete
static char *symString(const char *tmpl)
{
    const size_t n = strlen(tmpl);
    char *s = (char *)xmalloc(n + 1);
    for (size_t i = 0; i < n; ++i) {
        if (tmpl[i] == '\x01') { s[i] = (char)vf_nondet_u8("any"); vf_assume(s[i] != 0); }
        else if (tmpl[i] == '\x02') { s[i] = (char)vf_nondet_u8("printable"); vf_assume(s[i] >= 0x20 && s[i] <= 0x7e); }
        else s[i] = tmpl[i];
    }
    s[n] = 0;
    return s;
}

// ---------------------------------------------------------------- oracle
static bool startsWith(const char *s, const char *p) { return !strncmp(s, p, strlen(p)); }
static void checkEscaped(const SBuf &out)
{
    SBuf copy(out);
    const char *o = copy.c_str();
    const size_t n = out.length();
    vf_assert(strlen(o) == n, "no NUL inside the page");
    bool entity = false;
    for (size_t i = 0; i < n; ++i) {
        const char c = o[i];
        vf_assert(c != '<' && c != '>' && c != '"' && c != '\'', "no raw < > \" ' from client data in the error page");
        if (c == '&') {
            bool ok = startsWith(o + i, "&lt;") || startsWith(o + i, "&gt;") || startsWith(o + i, "&quot;") ||
                      startsWith(o + i, "&amp;") || startsWith(o + i, "&apos;");
            if (!ok && o[i + 1] == '#') {
                size_t k = i + 2; unsigned v = 0;
                while (o[k] >= '0' && o[k] <= '9' && k < i + 5) v = v * 10 + (o[k++] - '0');
                ok = k > i + 2 && o[k] == ';' && v < 256;
            }
            vf_assert(ok, "every & in the error page starts an entity (no raw & from client data)");
            entity = true;
        }
    }
    vf_observe("len", n);
    vf_reach(entity ? "escaped" : "plain");
}

// ---------------------------------------------------------------- objects
// ErrorState without its constructor chain: zeroed memory (all pointers nil, optional disengaged, type/page_id ERR_NONE)
static ErrorState *rawError()
{
    return static_cast<ErrorState *>(xcalloc(1, sizeof(ErrorState)));
}

// HttpRequest without its constructor chain (MasterXaction, HierarchyLogEntry, BodyPipe ...): zeroed memory with the members
// the %codes read constructed in place. RefCount<HttpRequest> needs a vtable pointer to reach the virtual Lock base, which
// such a block does not have, so the raw pointer is stored into ErrorState::request directly (never locked or released).
static HttpRequest *rawRequest(ErrorState *e)
{
    HttpRequest *r = static_cast<HttpRequest *>(xcalloc(1, sizeof(HttpRequest)));
    ::new (static_cast<void *>(&r->method)) HttpRequestMethod(Http::METHOD_GET);
    ::new (static_cast<void *>(&r->url)) AnyP::Uri();   // AnyP::Uri has a class-specific operator new (MEMPROXY)
    ::new (static_cast<void *>(&r->header)) HttpHeader(hoRequest);
    ::new (static_cast<void *>(&r->extacl_message)) String();
    r->url.scheme_ = AnyP::UriScheme(AnyP::PROTO_HTTP);
    strcpy(r->url.host_, "h.example");
    r->url.port_ = 80;
    r->url.path_ = SBuf("/p");
    static_assert(sizeof(e->request) == sizeof(HttpRequest *), "RefCount is a single pointer");
    *reinterpret_cast<HttpRequest **>(&e->request) = r;
    return r;
}

static void setup()
{
    vf_quiet();
    AnyP::UriScheme::Init();
    starting_up = 0;                      // a template error would be swallowed, as at run time
    Config.onoff.strip_query_terms = 1;   // squid.conf default
    visible_appname_string = "squid";
}

static void build(ErrorState *e, const char code)
{
    char tmpl[8] = "[%X]";
    tmpl[2] = code;
    const SBuf out = e->compile(tmpl, false, true);
    vf_assert(out.length() >= 2 && out[0] == '[' && out[out.length() - 1] == ']', "template text is kept");
    checkEscaped(out);
    WITNESS_POINT();
}

// ---------------------------------------------------------------- entries
// no parsed request (invalid request / invalid URL errors): the raw URL string is all there is
extern "C" void c33_raw_url(void)
{
    setup();
    ErrorState *e = rawError();
    e->url = symString("http://h/\x01" "a\x02");
    build(e, "Uu"[vf_choose(2, "code")]);
}

// FTP data, DNS and preformatted messages
extern "C" void c33_ftp_dns(void)
{
    setup();
    ErrorState *e = rawError();
    const unsigned which = vf_choose(6, "code");
    switch (which) {
    case 0: e->ftp.request = symString("RETR \x01" "a\x02"); build(e, 'f'); break;
    case 1: e->ftp.reply = symString("550 \x01" "a\x02"); build(e, 'F'); break;
    case 2: wordlistAdd(&e->ftp.server_msg, symString("550-\x01" "a\x02")); wordlistAdd(&e->ftp.server_msg, "550 end"); build(e, 'g'); break;
    case 3: e->ftp.cwd_msg = symString("250 \x01" "a\x02"); build(e, 'z'); break;
    case 4: { char *s = symString("no \x01" "a\x02"); ::new (static_cast<void *>(&e->dnsError)) std::optional<SBuf>(SBuf(s)); build(e, 'z'); } break;
    default: e->err_msg = symString("msg \x01" "a\x02"); build(e, 'Z'); break;
    }
}

// request URI parts: host, path, scheme, method
extern "C" void c33_request_uri(void)
{
    setup();
    ErrorState *e = rawError();
    HttpRequest *r = rawRequest(e);
    const unsigned shape = vf_choose(4, "shape");
    switch (shape) {
    case 0: { char *h = symString("h\x01" "a\x02"); strcpy(r->url.host_, h); } break;                 // host
    case 1: r->url.path_ = SBuf(symString("/\x01?\x02"));  break;                                     // path and query
    case 2: r->method.theMethod = Http::METHOD_OTHER; r->method.theImage = SBuf(symString("M\x01" "a\x02")); break; // extension method
    default: r->url.scheme_ = AnyP::UriScheme(AnyP::PROTO_UNKNOWN, symString("s\x01" "a\x02")); break; // unknown scheme
    }
    static const char codes[4][5] = { "HUuR", "UuR", "MR", "PUu" };
    const char *cs = codes[shape];
    build(e, cs[vf_choose((uint32_t)strlen(cs), "code")]);
}

// CONNECT (authority-form) and the peer/host name recorded while forwarding
extern "C" void c33_request_connect(void)
{
    setup();
    ErrorState *e = rawError();
    HttpRequest *r = rawRequest(e);
    if (vf_choose(2, "shape") == 0) {
        r->method.theMethod = Http::METHOD_CONNECT;
        r->url.port_ = 443;
        char *h = symString("h\x01" "a\x02"); strcpy(r->url.host_, h);
        build(e, "UuH"[vf_choose(3, "code")]);
    } else {
        char *h = symString("p\x01" "a\x02"); strcpy(r->hier.host, h);
        build(e, 'H');
    }
}

// request header values and names (%R = the whole request as received)
extern "C" void c33_request_headers(void)
{
    setup();
    ErrorState *e = rawError();
    HttpRequest *r = rawRequest(e);
    if (vf_choose(2, "shape") == 0)
        r->header.putStr(Http::HdrType::USER_AGENT, symString("u\x01" "a\x02"));
    else
        r->header.addEntry(new HttpHeaderEntry(Http::HdrType::OTHER, SBuf(symString("X-\x02")), symString("v\x01")));
    build(e, 'R');
}

// credentials user name (%a). Auth::UserRequest/Auth::User are abstract: minimal concrete subclasses, real base classes.
struct HarnessUser: public Auth::User {
    HarnessUser(): Auth::User(nullptr, nullptr) {}
    int32_t ttl() const override { return 3600; }
    void addToNameCache() override {}
};
struct HarnessUserRequest: public Auth::UserRequest {
    bool authenticated() const override { return 1; }
    void authenticate(HttpRequest *, ConnStateData *, Http::HdrType) override {}
    Auth::Direction module_direction() override { return Auth::CRED_VALID; }
    void startHelperLookup(HttpRequest *, AccessLogEntry::Pointer &, AUTHCB *, void *) override {}
    const char *credentialsStr() override { return ""; }
    const char *connLastHeader() override { return nullptr; }
};
extern "C" void c33_user(void)
{
    setup();
    ErrorState *e = rawError();
    HttpRequest *r = rawRequest(e);
    Auth::User::Pointer u = new HarnessUser;
    u->username(symString("u\x01" "a\x02"));
    Auth::UserRequest::Pointer ur = new HarnessUserRequest;
    ur->user(u);
    u->lock(); ur->lock();  // never destroyed
    r->auth_user_request = ur;
    build(e, 'a');
}
