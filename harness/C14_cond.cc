// C14 (kernel): conditional requests are answered according to their validators; a 304 from the origin updates the cached headers.
//
// Decided kernels (all real code, re-read from the repo on every run):
//  K1 c14_etag: entity-tag parsing and comparison (src/ETag.cc: etagParseInit, etagIsStrongEqual, etagIsWeakEqual) against
//     RFC 9110 8.8.3 on short fully symbolic strings.
//  K2 c14_inm, c14_ifmatch, c14_ims, c14_order: the decision clientReplyContext::processConditional() (src/client_side_reply.cc)
//     takes on a cache hit, with the real StoreEntry::hasIfMatchEtag()/hasIfNoneMatchEtag()/hasOneOfEtags()/modifiedSince()
//     (src/store.cc), HttpHeader::getList()/getETag(), strListGetItem(), and the real senders sendNotModified()/
//     sendPreconditionFailedError()/processMiss() up to their first call into the store-client layer, where a harness stub
//     records which of them was running (304 / 412 / miss=forward to the origin) and ends the path; "return false" = the full
//     cached response is sent. Oracle: RFC 9110 13.1.1-13.1.3 and the evaluation order of 13.2.2 written over the inputs.
//  K3 c14_merge: what a 304 from the origin does to the cached reply: StoreEntry::updateOnNotModified() (src/store.cc) ->
//     HttpReply::recreateOnNotModified() -> HttpHeader::needUpdate()/update() (src/HttpReply.cc, src/HttpHeader.cc): later hits
//     (MemObject::freshestReply()) carry the 304's field values instead of the old ones, keep every other stored field, keep
//     status and body (MemObject::baseReply() and the body length it declares are untouched).
#include "C13_env.h"
#include <set>
#include <stack>
#include <deque>
#include <queue>
#include <array>
#include <tuple>
#include <bitset>
#include <iosfwd>
#include <ostream>
#include <utility>
#include <limits>
#include <type_traits>
#include <unordered_set>
#include <cstdarg>
#define private public
#define protected public
#include "AccessLogEntry.h"
#include "client_side_request.h"
#include "client_side_reply.h"
#undef private
#undef protected
#include "ETag.h"
#include "LogTags.h"
#include "StoreClient.h"
#include "errorpage.h"
#include "client_side.h"
#include "cbdata.h"
#include "mem/Pool.h"
#include "mem/Allocator.h"
#include "time/gadgets.h"

#ifdef VF_THOROUGH
#define T(quick, thorough) thorough
#else
#define T(quick, thorough) quick
#endif

// ================================================================== K1: entity-tags
// RFC 9110 8.8.3: entity-tag = [ %s"W/" ] DQUOTE *etagc DQUOTE, etagc = %x21 / %x23-7E / obs-text
struct RefTag { bool valid, weak; unsigned b, e; }; // opaque-tag (with its quotes) = s[b, e)
static RefTag refTag(const uint8_t *s, const unsigned n)
{
    RefTag t = { false, false, 0, n };
    if (n >= 2 && s[0] == 'W' && s[1] == '/') { t.weak = true; t.b = 2; }
    if (n - t.b < 2 || s[t.b] != '"' || s[n - 1] != '"') return t;
    t.valid = true;
    for (unsigned i = t.b + 1; i + 1 < n; ++i)
        if (!(s[i] == 0x21 || (s[i] >= 0x23 && s[i] <= 0x7e) || s[i] >= 0x80)) t.valid = false;
    return t;
}
static bool refSameOpaque(const uint8_t *a, const RefTag &ta, const uint8_t *b, const RefTag &tb)
{
    if (ta.e - ta.b != tb.e - tb.b) return false;
    bool eq = true;
    for (unsigned i = 0; i < ta.e - ta.b; ++i) eq = eq && a[ta.b + i] == b[tb.b + i];
    return eq;
}

#define NTAG T(4, 6)
extern "C" void c14_etag(void)
{
    vf_quiet();
    // two strings of 0..NTAG fully symbolic non-NUL bytes (they reach ETag.cc as C strings)
    uint8_t a[NTAG + 1], b[NTAG + 1];
    const unsigned na = (unsigned)vf_concretize(vf_range(0, NTAG, "na")), nb = (unsigned)vf_concretize(vf_range(0, NTAG, "nb"));
    for (unsigned i = 0; i < na; ++i) { a[i] = vf_nondet_u8("a"); vf_assume(a[i] != 0); }
    for (unsigned i = 0; i < nb; ++i) { b[i] = vf_nondet_u8("b"); vf_assume(b[i] != 0); }
    a[na] = b[nb] = 0;
    ETag ta, tb;
    const bool pa = etagParseInit(&ta, reinterpret_cast<const char *>(a)), pb = etagParseInit(&tb, reinterpret_cast<const char *>(b));
    const RefTag ra = refTag(a, na), rb = refTag(b, nb);
    vf_observe("pa", pa); vf_observe("pb", pb);
    if (ra.valid) {
        vf_assert(pa, "a well-formed entity-tag is accepted");
        vf_assert((ta.weak != 0) == ra.weak, "the weakness indicator is read correctly");
    }
    if (pa && pb) {
        // whatever Squid accepts beyond the grammar is still compared as [W/] + opaque text
        const RefTag la = { true, a[0] == 'W', a[0] == 'W' ? 2u : 0u, na }, lb = { true, b[0] == 'W', b[0] == 'W' ? 2u : 0u, nb };
        const bool same = refSameOpaque(a, la, b, lb);
        const bool strong = etagIsStrongEqual(ta, tb), weak = etagIsWeakEqual(ta, tb);
        vf_observe("strong", strong); vf_observe("weak", weak);
        vf_assert(weak == same, "weak comparison: the opaque-tags are identical (RFC 9110 8.8.3.2)");
        vf_assert(strong == (same && !la.weak && !lb.weak), "strong comparison: identical opaque-tags and neither tag weak");
        reachEither(weak, "equal", "different");
    } else
        vf_reach("rejected");
    WITNESS_POINT();
}

// ================================================================== K2: processConditional()
// ---- what the real senders reach first outside client_side_reply.cc/store.cc/HttpReply.cc: recorded, then the path ends
struct Decision { int tag; };
int storeUnregister(store_client *, StoreEntry *, void *data)
{   // sendNotModified(), sendPreconditionFailedError() and processMiss() all drop the hit entry first; the logging tag they set
    // just before tells which one is running
    throw Decision{ static_cast<clientReplyContext *>(data)->http->loggingTags().oldType };
}
// errorpage.cc is not linked: the ErrorState constructor records the status of the error page clientBuildError() asks for
cbdata_type ErrorState::CBDATA_ErrorState = CBDATA_UNKNOWN;
static int builtErrorStatus;
ErrorState::ErrorState(err_type t, Http::StatusCode s, HttpRequest *, const AccessLogEntryPointer &): type(t), httpStatus(s) { builtErrorStatus = s; }
// cbdata.cc (new ErrorState) allocates through memory pools: a pool here is the plain heap
struct PlainPool: public Mem::Allocator {
    PlainPool(const char *l, size_t sz): Mem::Allocator(l, sz) {}
    size_t getStats(Mem::PoolStats &) override { return 0; }
    bool idleTrigger(int) const override { return false; }
    void clean(time_t) override {}
    void *allocate() override { return xcalloc(1, objectSize); }
    void deallocate(void *p) override { xfree(p); }
};
MemPools::MemPools() {}
MemPools &MemPools::GetInstance() { static MemPools *p = new MemPools; return *p; }
Mem::Allocator *MemPools::create(const char *label, size_t sz) { return new PlainPool(label, sz); }

// writes a (possibly const-qualified) pointer-sized member of a raw object
template <class M, class V> static inline void poke(const M &member, V value) { static_assert(sizeof(M) == sizeof(V), "layout"); memcpy(const_cast<M *>(&member), &value, sizeof(value)); }

enum Outcome { FULL, NOT_MODIFIED, PRECONDITION_FAILED, MISS, CONFUSED };

// a request header field value / the reply's ETag: template, '\x01' = fully symbolic byte
#define MAXV 48
struct Val { bool present; uint8_t b[MAXV]; unsigned n; };
static Val fillVal(const char *tmpl, const char *name)
{
    Val v; v.present = tmpl != nullptr; v.n = 0;
    if (tmpl)
        for (const char *p = tmpl; *p; ++p) {
            uint8_t c = (uint8_t)*p;
            if (*p == '\x01') {
                c = vf_nondet_u8(name);
                vf_assume(c != 0 && c != '\r' && c != '\n'); // a parsed field value has none of these
#ifdef WITNESS
                vf_assume(c == 'q'); // the vacuity twin only has to show that the end of the check is reachable
#endif
            }
            v.b[v.n++] = c;
        }
    v.b[v.n] = 0;
    return v;
}
static Val pickVal(const char *const *alts, const unsigned n, const char *what) { return fillVal(alts[n > 1 ? vf_choose(n, what) : 0], what); }

struct Hit {
    ClientHttpRequest *http;
    clientReplyContext *ctx;
    HttpRequest *req;
    HttpReply *rep;
    StoreEntry *entry;
};

// A cache hit as clientReplyContext::cacheHit() sees it when it calls processConditional(): clientReplyContext,
// ClientHttpRequest, AccessLogEntry, HttpRequest, StoreEntry, MemObject are zeroed raw memory of the real size with the members
// the decision reads set here; the cached HttpReply is really constructed.
static Hit makeHit(const unsigned status, const Val &etag, const time_t lastModified, const time_t timestamp)
{
    Hit h;
    h.rep = new HttpReply;
    h.rep->sline.set(Http::ProtocolVersion(1, 1), static_cast<Http::StatusCode>(status));
    h.rep->header.putStr(Http::HdrType::CONTENT_TYPE, "text/plain");
    if (etag.present)
        h.rep->header.addEntry(new HttpHeaderEntry(Http::HdrType::ETAG, SBuf(), reinterpret_cast<const char *>(etag.b)));
    h.entry = rawObject<StoreEntry>();
    MemObject *mem = rawObject<MemObject>();
    ::new (&mem->storeId_) SBuf("http://h.x/p");
    ::new (&mem->method) HttpRequestMethod(Http::METHOD_GET);
    ::new (&mem->vary_headers) SBuf();
    rawPointer(mem->reply_, h.rep);
    h.entry->mem_obj = mem;
    h.entry->lastModified_ = lastModified;   // StoreEntry::timestampsSet(): the reply's Last-Modified, -1 if none
    h.entry->timestamp = timestamp;
    h.req = rawObject<HttpRequest>();
    ::new (&h.req->method) HttpRequestMethod(Http::METHOD_GET);
    ::new (&h.req->header) HttpHeader(hoRequest);
    ::new (&h.req->vary_headers) SBuf();
    h.req->ims = -1;
    h.req->header.putStr(Http::HdrType::HOST, "h.x");
    AccessLogEntry *al = rawObject<AccessLogEntry>();
    al->cache.code = LogTags(LOG_TCP_HIT);
    h.http = rawObject<ClientHttpRequest>();
    poke(h.http->al, al);
    poke(h.http->request, h.req);
    h.http->entry_ = h.entry;
    h.http->uri = const_cast<char *>("http://h.x/p");
    h.ctx = rawObject<clientReplyContext>();
    h.ctx->http = h.http;
    return h;
}

static Outcome decide(Hit &h)
{
    builtErrorStatus = 0;
    try {
        const bool handled = h.ctx->clientReplyContext::processConditional();
        return handled ? CONFUSED : FULL; // every "handled" exit goes through one of the senders
    } catch (const Decision &d) {
        switch (d.tag) {
        case LOG_TCP_INM_HIT: case LOG_TCP_IMS_HIT: return NOT_MODIFIED;
        case LOG_TCP_HIT: return builtErrorStatus == Http::scPreconditionFailed ? PRECONDITION_FAILED : CONFUSED;
        case LOG_TCP_MISS: return MISS;
        }
        return CONFUSED;
    }
}

// ---- reference: does a field value (a list of entity-tags or "*") match the cached reply's entity-tag?
// Members are separated by commas outside double quotes and trimmed of SP/HTAB. Answers are three-valued: YES/NO only for
// lists whose every member is "*" or a well-formed entity-tag without '\\' (a reader may or may not treat backslash as an escape
// inside the quotes; RFC 9110 does not, Squid's list splitter does), MAYBE otherwise.
enum Tri { NO, YES, MAYBE };
static Tri refListMatches(const Val &list, const Val &etag, const bool weakComparison)
{
    const RefTag rt = etag.present ? refTag(etag.b, etag.n) : RefTag{ false, false, 0, 0 };
    const bool haveRepresentationTag = etag.present && rt.valid;
    if (etag.present && !rt.valid) return MAYBE; // a cached reply with a malformed ETag: no claim
    bool any = false, unsure = false;
    unsigned i = 0;
    const uint8_t *s = list.b; const unsigned n = list.n;
    while (i <= n) {
        unsigned b = i; bool quoted = false;
        for (; i < n; ++i) {
            if (s[i] == '"') quoted = !quoted;
            else if (s[i] == '\\') unsure = true;
            else if (!quoted && s[i] == ',') break;
        }
        unsigned e = i; ++i;
        while (b < e && (s[b] == ' ' || s[b] == '\t')) ++b;
        while (e > b && (s[e - 1] == ' ' || s[e - 1] == '\t')) --e;
        if (b == e) continue; // empty list element
        if (e - b == 1 && s[b] == '*') { any = true; continue; } // "*" matches any current representation (there is one: this is a hit)
        const RefTag t = refTag(s + b, e - b);
        if (!t.valid) { unsure = true; continue; }
        if (!haveRepresentationTag) continue;
        const RefTag tt = { true, t.weak, t.b + b, e };
        if (refSameOpaque(s, tt, etag.b, rt) && (weakComparison || (!t.weak && !rt.weak))) any = true;
    }
    if (unsure) return MAYBE;
    return any ? YES : NO;
}

struct Cond {
    unsigned status;        // of the cached reply
    Val etag;               // its ETag field (absent possible)
    time_t lastModified;    // its Last-Modified as StoreEntry keeps it (-1: none)
    time_t timestamp;       // StoreEntry::timestamp: the reply's Date (or the time it was received)
    unsigned method;        // Http::MethodType of the request
    Val ifMatch, ifNoneMatch;
    bool ims; time_t imsTime; // If-Modified-Since as clientInterpretRequestHeaders() leaves it: flags.ims + ims (> 0)
};

static bool onlyImsWithoutLm = false; // set by c14_known_ims_without_lm only
static void conditional(const Cond &c)
{
    // KNOWN FINDING (known_findings.json, C14-ims-without-last-modified): a cached reply WITHOUT Last-Modified is treated as last
    // modified at StoreEntry::timestamp (its Date / time of receipt): StoreEntry::lastModified() falls back to the timestamp, so
    // If-Modified-Since >= timestamp gets 304, where RFC 9110 13.1.3 says the field MUST be ignored when no modification date is
    // available (found by c14_ims: no ETag, no Last-Modified, timestamp 1000000000, If-Modified-Since 1000000001, GET or HEAD ->
    // 304). The class is examined by its own entry (c14_known_ims_without_lm), every other entry excludes exactly this class.
    const bool imsWithoutLm = c.ims && !c.ifNoneMatch.present && c.lastModified < 0 && c.timestamp >= 0 && c.timestamp <= c.imsTime;
    vf_assume(imsWithoutLm == onlyImsWithoutLm);
    Hit h = makeHit(c.status, c.etag, c.lastModified, c.timestamp);
    h.req->method = HttpRequestMethod(static_cast<Http::MethodType>(c.method));
    if (c.ifMatch.present) h.req->header.addEntry(new HttpHeaderEntry(Http::HdrType::IF_MATCH, SBuf(), reinterpret_cast<const char *>(c.ifMatch.b)));
    if (c.ifNoneMatch.present) h.req->header.addEntry(new HttpHeaderEntry(Http::HdrType::IF_NONE_MATCH, SBuf(), reinterpret_cast<const char *>(c.ifNoneMatch.b)));
    if (c.ims) {
        h.req->flags.ims = true; h.req->ims = c.imsTime; h.req->imslen = -1;
        h.req->header.addEntry(new HttpHeaderEntry(Http::HdrType::IF_MODIFIED_SINCE, SBuf(), "Sun, 09 Sep 2001 01:46:40 GMT")); // only its presence is read here
    }
    vf_assert(h.req->conditional() == (c.ims || c.ifMatch.present || c.ifNoneMatch.present), "HttpRequest::conditional() sees exactly the three validators");

    const Outcome got = decide(h);
    vf_observe("outcome", got);
    vf_assert(got != CONFUSED, "processConditional() reports 'handled' only after starting 304, 412 or a miss");

    // ---- RFC 9110 13.2.2 over the inputs
    const bool getOrHead = c.method == Http::METHOD_GET || c.method == Http::METHOD_HEAD;
    if (c.status != Http::scOkay) {
        // Squid evaluates validators against cached 200 replies only; anything else goes to the origin
        vf_assert(got == MISS, "a conditional request that hits a non-200 reply is forwarded, not answered from the validators");
        vf_reach("non-200");
    } else {
        const Tri im = c.ifMatch.present ? refListMatches(c.ifMatch, c.etag, false) : YES;
        const Tri inm = c.ifNoneMatch.present ? refListMatches(c.ifNoneMatch, c.etag, getOrHead) : NO;
        if (im == NO) {
            vf_assert(got == PRECONDITION_FAILED, "If-Match without a strongly matching entity-tag gets 412");
            vf_reach("412-if-match");
        } else if (im == YES) {
            vf_assert(!(got == PRECONDITION_FAILED && !c.ifNoneMatch.present), "412 only for a failed precondition");
            if (c.ifNoneMatch.present) {
                if (inm == YES) {
                    vf_assert(got == (getOrHead ? NOT_MODIFIED : PRECONDITION_FAILED), "If-None-Match with a matching entity-tag: 304 for GET/HEAD, 412 otherwise");
                    vf_reach(getOrHead ? "304-inm" : "412-inm");
                } else if (inm == NO) {
                    vf_assert(got == FULL, "If-None-Match without a matching entity-tag: the full response (If-Modified-Since is ignored)");
                    vf_assert(!h.req->flags.ims, "If-Modified-Since is ignored when If-None-Match is present");
                    vf_reach("200-inm");
                }
            } else if (c.ims) {
                // 13.1.3: 304 iff the selected representation's last modification date is earlier or equal to the date provided
                const bool notModified = c.lastModified >= 0 && c.lastModified <= c.imsTime;
                vf_assert(got == (notModified ? NOT_MODIFIED : FULL), "If-Modified-Since: 304 iff Last-Modified is known and not later than the given date");
                reachEither(notModified, "304-ims", "200-ims");
            } else {
                vf_assert(got == FULL, "no failed precondition: the full response");
                vf_reach("200-plain");
            }
        }
        if (got == NOT_MODIFIED) // in any case, also the MAYBE ones
            vf_assert(getOrHead && ((c.ifNoneMatch.present && inm != NO) || (!c.ifNoneMatch.present && c.ims && c.lastModified >= 0 && c.lastModified <= c.imsTime)),
                      "304 only for GET/HEAD with a matching If-None-Match or, without If-None-Match, an If-Modified-Since not earlier than Last-Modified");
        if (got == PRECONDITION_FAILED)
            vf_assert((c.ifMatch.present && im != YES) || (c.ifNoneMatch.present && !getOrHead && inm != NO), "412 only for a failed If-Match, or a matching If-None-Match on a method other than GET/HEAD");
    }
    WITNESS_POINT();
}

static const Val absent = { false, {0}, 0 };
#define SYM "\x01"
#define ALTS(...) (const char *const[]){ __VA_ARGS__ }, sizeof((const char *const[]){ __VA_ARGS__ }) / sizeof(const char *)

// GET or HEAD -- the methods whose requests are looked up in the cache (HttpRequestMethod::respMaybeCacheable()); with
// `others` also POST/PUT/DELETE, for which processConditional() has the 412 arm of If-None-Match (no caller produces such a hit
// today; If-Modified-Since is then left out because RFC 9110 13.1.3 defines it for GET/HEAD only)
static unsigned symbolicMethod(const bool others)
{
    const unsigned m = vf_range(Http::METHOD_GET, Http::METHOD_DELETE, "method");
    vf_assume(m == Http::METHOD_GET || m == Http::METHOD_HEAD || (others && (m == Http::METHOD_POST || m == Http::METHOD_PUT || m == Http::METHOD_DELETE)));
    return (unsigned)vf_concretize(m);
}

// If-None-Match lists against the cached entity-tag: weak/strong on both sides, lists of two, '*', no ETag at all
extern "C" void c14_inm(void)
{
    vf_quiet();
    Cond c;
    c.status = 200;
    c.etag = pickVal(ALTS("\"" SYM SYM "\"", "W/\"" SYM "\"", nullptr, T("\"a\"", SYM "\"a\"")), "etag");
    c.lastModified = 999999000; c.timestamp = 1000000000;
    c.ims = vf_concretize(vf_bool("ims")); c.imsTime = 1000000000; // later than Last-Modified: would be 304 on its own
    c.method = symbolicMethod(!c.ims);
    c.ifMatch = absent;
    c.ifNoneMatch = pickVal(ALTS("\"" SYM T("b", SYM) "\"", "W/\"" SYM "\"", "\"x\"," SYM "\"a\"" T("", SYM), "*", SYM "\"a\"" SYM, T("\"a\", *", "\"a\"" SYM "*"), ""), "inm");
    conditional(c);
}

// If-Match lists (strong comparison), with and without If-None-Match behind it
extern "C" void c14_ifmatch(void)
{
    vf_quiet();
    Cond c;
    c.status = 200;
    c.etag = pickVal(ALTS("\"" SYM "b\"", "W/\"a\"", nullptr, T("\"ab\"", "W/\"" SYM "b\"")), "etag");
    c.lastModified = 999999000; c.timestamp = 1000000000;
    c.method = symbolicMethod(true);
    c.ifMatch = pickVal(ALTS("\"" SYM SYM "\"", "W/\"a\"", "\"x\", \"" SYM "b\"", "*", SYM "\"ab\"", ""), "im");
    c.ifNoneMatch = pickVal(ALTS(nullptr, "\"ab\"", "\"zz\""), "inm");
    c.ims = false; c.imsTime = -1;
    conditional(c);
}

// If-Modified-Since against Last-Modified: both any time (32-bit), Last-Modified possibly unknown; cached status any
extern "C" void c14_ims(void)
{
    vf_quiet();
    Cond c;
    c.status = 200;
    if (vf_concretize(vf_bool("non200"))) { c.status = vf_range(100, 599, "status"); vf_assume(c.status != 200); }
    c.etag = pickVal(ALTS(nullptr, "\"a\""), "etag");
    c.lastModified = vf_concretize(vf_bool("haveLm")) ? (time_t)vf_range(0, 0x7fffffff, "lm") : -1;
    c.timestamp = (time_t)vf_range(0, 0x7fffffff, "timestamp");
    c.method = symbolicMethod(false);
    c.ifMatch = absent; c.ifNoneMatch = absent;
    c.ims = true; c.imsTime = (time_t)vf_range(1, 0x7fffffff, "ims"); // flags.ims is set only for a date > 0
    conditional(c);
}

// KNOWN FINDING (known_findings.json, C14-ims-without-last-modified): cached 200 reply without ETag and Last-Modified,
// If-Modified-Since not earlier than the entry's timestamp
extern "C" void c14_known_ims_without_lm(void)
{
    vf_quiet();
    onlyImsWithoutLm = true;
    Cond c;
    c.status = 200;
    c.etag = absent;
    c.lastModified = -1;
    c.timestamp = (time_t)vf_range(0, 0x7fffffff, "timestamp");
    c.method = symbolicMethod(false);
    c.ifMatch = absent; c.ifNoneMatch = absent;
    c.ims = true; c.imsTime = (time_t)vf_range(1, 0x7fffffff, "ims");
    conditional(c);
}

// all three validators at once: the evaluation order of RFC 9110 13.2.2 (If-Match, then If-None-Match, which switches
// If-Modified-Since off, then If-Modified-Since)
extern "C" void c14_order(void)
{
    vf_quiet();
    Cond c;
    c.status = 200;
    c.etag = pickVal(ALTS("\"" SYM "\"", T("W/\"a\"", "W/\"" SYM "\"")), "etag");
    c.lastModified = (time_t)vf_range(0, 0x7fffffff, "lm"); c.timestamp = 1000000000;
    c.method = symbolicMethod(false);
    c.ifMatch = pickVal(ALTS(nullptr, "\"" SYM "\"", "*"), "im");
    c.ifNoneMatch = pickVal(ALTS(nullptr, "\"" SYM "\"", "W/\"a\""), "inm");
    c.ims = vf_concretize(vf_bool("ims")); c.imsTime = (time_t)vf_range(1, 0x7fffffff, "ims");
    conditional(c);
}

// ================================================================== K3: the 304 merge
// src/time/rfc1123.cc is not linked (date parsing is C35's subject): the two Date texts used below are known, anything else is "unparsable"
#define DATE_OLD "Sun, 09 Sep 2001 01:46:40 GMT"
#define DATE_NEW "Sun, 09 Sep 2001 01:56:40 GMT"
time_t Time::ParseRfc1123(const char *s) { return !strcmp(s, DATE_OLD) ? 1000000000 : !strcmp(s, DATE_NEW) ? 1000000600 : -1; }

struct Field { const char *name; const char *value; }; // value template, '\x01' = fully symbolic byte
static Val fieldValue(const HttpHeader &h, const char *name)
{
    Val v; v.n = 0;
    String s;
    v.present = h.hasNamed(name, strlen(name), &s);
    if (v.present) { v.n = s.size(); for (unsigned i = 0; i < v.n && i < MAXV - 1; ++i) v.b[i] = (uint8_t)s.rawBuf()[i]; }
    return v;
}
static bool sameVal(const Val &a, const Val &b)
{
    if (a.present != b.present || a.n != b.n) return false;
    bool eq = true;
    for (unsigned i = 0; i < a.n; ++i) eq = eq && a.b[i] == b.b[i];
    return eq;
}

static bool only304ContentLength = false; // set by c14_known_304_content_length only
static void merge(const int fixedSet)
{
    vf_quiet();
    Config.maxReplyHeaderSize = 65536; // default reply_header_max_size
    squid_curtime = 1000000600;
    // the cached 200 reply
    static const Field stored[] = { {"Date", DATE_OLD}, {"Content-Type", "text/plain"}, {"ETag", "\"a\""}, {"Content-Length", "5"},
                                    {"X-A", "old"}, {"X-C", "keep"}, {"Vary", "x-v"} };
    const unsigned nStored = sizeof(stored) / sizeof(*stored);
    HttpReply *rep = new HttpReply;
    rep->sline.set(Http::ProtocolVersion(1, 1), Http::scOkay);
    for (const auto &f : stored) addField(rep->header, f.name, f.value);
    rep->hdrCacheInit();
    rep->hdr_sz = 200;
    StoreEntry *entry = rawObject<StoreEntry>();
    MemObject *mem = rawObject<MemObject>();
    ::new (&mem->storeId_) SBuf("http://h.x/p");
    ::new (&mem->method) HttpRequestMethod(Http::METHOD_GET);
    ::new (&mem->vary_headers) SBuf("x-v");
    rawPointer(mem->reply_, rep);
    entry->mem_obj = mem;
    entry->timestamp = 1000000000; entry->expires = -1; entry->lastModified_ = -1;

    // the origin's 304: Date plus one of these field sets (name spelled as the origin likes; values with symbolic bytes)
    static const Field sets[][3] = {
        { {"X-A", SYM SYM T("", SYM)}, {nullptr, nullptr} },      // replaces a stored extension field
        { {"x-a", SYM}, {nullptr, nullptr} },                     // ... named in another case
        { {"X-B", SYM}, {nullptr, nullptr} },                     // a field the stored reply does not have
        { {"ETag", "\"" SYM "\""}, {nullptr, nullptr} },           // a registered field
        { {"X-A", "old"}, {nullptr, nullptr} },                   // nothing new
        { {"X-A", SYM}, {"X-A", "2"}, {nullptr, nullptr} },       // two lines of one name
        { {"Vary", "x-w"}, {"X-A", SYM}, {nullptr, nullptr} },    // Vary is never updated (the variant key depends on it)
        { {"Content-Length", SYM}, {nullptr, nullptr} },          // RFC 9111 3.2: Content-Length is not updated
    };
    const unsigned which = fixedSet >= 0 ? (unsigned)fixedSet : vf_choose(sizeof(sets) / sizeof(*sets), "set");
    HttpReply *r304 = new HttpReply;
    r304->sline.set(Http::ProtocolVersion(1, 1), Http::scNotModified);
    const char *const date304 = which == 4 ? DATE_OLD : DATE_NEW; // set 4: a 304 that brings nothing new at all
    addField(r304->header, "Date", date304);
    Val sent[3]; unsigned nSent = 0;
    for (const Field *f = sets[which]; f->name; ++f) {
        sent[nSent] = fillVal(f->value, "v");
        // KNOWN FINDING (known_findings.json, C14-304-content-length): a 304 whose Content-Length differs from the stored reply's
        // (e.g. "Content-Length: 0", which some origins send with 304) replaces the stored Content-Length: HttpHeader::update()
        // exempts only Vary, although RFC 9111 3.2 exempts Content-Length too; later hits then declare a body length that is not
        // the stored body's (found by c14_merge: stored Content-Length 5, 304 with Content-Length 0 -> freshestReply() has
        // Content-Length 0). The class is examined by its own entry (c14_known_304_content_length), every other entry excludes it.
        if (!strcmp(f->name, "Content-Length")) {
            vf_assume(sent[nSent].b[0] >= '0' && sent[nSent].b[0] <= '9'); // a Content-Length that parses
            vf_assume((sent[nSent].b[0] != '5') == only304ContentLength);
        }
        addField(r304->header, f->name, reinterpret_cast<const char *>(sent[nSent].b));
        ++nSent;
    }
    r304->hdrCacheInit();
    StoreEntry *e304 = rawObject<StoreEntry>();
    MemObject *mem304 = rawObject<MemObject>();
    rawPointer(mem304->reply_, r304);
    e304->mem_obj = mem304;

    bool updated = false;
    try { updated = entry->updateOnNotModified(*e304); } catch (const TextException &) { vf_assert(0, "a small update is not refused"); }
    vf_observe("updated", updated);

    // what later hits see
    const HttpReply &fresh = mem->freshestReply();
    vf_assert(&mem->baseReply() == rep, "the stored reply object (whose size fields locate the body) is not replaced");
    vf_assert(rep->hdr_sz == 200 && mem->inmem_lo == 0, "the stored body is untouched");
    vf_assert(fresh.sline.status() == Http::scOkay, "later hits keep the stored status");
    vf_assert(sameVal(fieldValue(rep->header, "X-A"), fillVal("old", "")), "the stored header block itself is not edited");
    // every field of the 304 (but Vary and Content-Length) is what later hits carry
    for (const Field *f = sets[which]; f->name; ++f) {
        if (!strcasecmp(f->name, "Vary") || !strcasecmp(f->name, "Content-Length")) continue;
        Val expect = sent[f - sets[which]];
        if (which == 5) { expect = sent[0]; expect.b[expect.n++] = ','; expect.b[expect.n++] = ' '; expect.b[expect.n++] = '2'; } // lines joined
        vf_assert(sameVal(fieldValue(fresh.header, f->name), expect), "later hits carry the field value the origin's 304 supplied");
    }
    vf_assert(sameVal(fieldValue(fresh.header, "Date"), fillVal(date304, "")), "later hits carry the 304's Date");
    // stored fields the 304 did not mention stay
    for (unsigned k = 1; k < nStored; ++k) {
        bool mentioned = false;
        for (const Field *f = sets[which]; f->name; ++f) mentioned = mentioned || !strcasecmp(f->name, stored[k].name);
        if (!mentioned)
            vf_assert(sameVal(fieldValue(fresh.header, stored[k].name), fillVal(stored[k].value, "")), "fields the 304 does not mention are kept");
    }
    vf_assert(sameVal(fieldValue(fresh.header, "Vary"), fillVal("x-v", "")), "Vary is not updated");
    vf_assert(sameVal(fieldValue(fresh.header, "Content-Length"), fillVal("5", "")) && fresh.content_length == 5,
              "the Content-Length later hits carry still describes the unchanged stored body");
    reachEither(&fresh != rep, "updated", "nothing-new");
    WITNESS_POINT();
}
extern "C" void c14_merge(void) { merge(-1); }
// KNOWN FINDING (known_findings.json, C14-304-content-length): the origin's 304 carries 'Content-Length: d', d a digit other than 5
extern "C" void c14_known_304_content_length(void) { only304ContentLength = true; merge(7); }
