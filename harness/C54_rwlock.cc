// C54: Ipc::ReadWriteLock gives mutual exclusion under every interleaving.
// NT modelled threads ("processes") run NOPS operations each on one real ReadWriteLock. The operation is a symbolic
// choice among the public methods that the thread may legally call given what it holds. The engine may switch
// threads before every atomic instruction of the real code (sequentially consistent) and at every vf_yield().
// Ghost holder counts are updated in the same scheduling step as the last atomic operation of a successful
// acquisition, and before the first atomic operation of a release (after a vf_yield() that stands for the critical
// section), so every assertion below is evaluated against the true set of holders.
#include "squid.h"
#include "ipc/ReadWriteLock.h"
#include "common.h"

static int NT = 2, NOPS = 2; // set per entry

static Ipc::ReadWriteLock *theLock;
// ghost state
static int gShared, gExcl, gSharingOk, gUpdating;

enum Hold { hNone, hShared, hHeaders, hExcl, hAppend, hStopped };

static void acquiredShared()
{
    vf_assert(gExcl == 0 || gSharingOk, "a shared holder coexists with an exclusive holder that is not appending");
    ++gShared;
}
static void acquiredExclusive()
{
    vf_assert(gExcl == 0, "two exclusive holders");
    vf_assert(gShared == 0, "an exclusive (non-appending) holder coexists with a shared holder");
    gExcl = 1; gSharingOk = 0;
}

static void worker(void *arg)
{
    Ipc::ReadWriteLock &lock = *theLock;
    Hold h = hNone;
    for (int i = 0; i < NOPS; ++i) {
        const unsigned op = vf_choose(3, "op");
        switch (h) {
        case hNone:
            if (op == 0) { if (lock.lockShared()) { acquiredShared(); h = hShared; } }
            else if (op == 1) { if (lock.lockExclusive()) { acquiredExclusive(); h = hExcl; } }
            else { if (lock.lockHeaders()) { acquiredShared(); vf_assert(gUpdating == 0, "two shared holders update headers at the same time"); gUpdating = 1; h = hHeaders; } }
            break;
        case hShared:
            --gShared; // released before the first atomic step of the unlock
            if (op == 0) { lock.unlockShared(); h = hNone; }
            else { if (lock.unlockSharedAndSwitchToExclusive()) { acquiredExclusive(); h = hExcl; } else h = hNone; }
            break;
        case hHeaders:
            gUpdating = 0; --gShared;
            lock.unlockHeaders(); h = hNone;
            break;
        case hExcl:
            if (op == 0) { gExcl = 0; gSharingOk = 0; lock.unlockExclusive(); h = hNone; }
            else if (op == 1) { gExcl = 0; gSharingOk = 0; ++gShared; lock.switchExclusiveToShared(); h = hShared; }
            else { gSharingOk = 1; lock.startAppending(); h = hAppend; }
            break;
        case hAppend:
            if (op == 0) { gExcl = 0; gSharingOk = 0; lock.unlockExclusive(); h = hNone; }
            else if (op == 1) { gExcl = 0; gSharingOk = 0; ++gShared; lock.switchExclusiveToShared(); h = hShared; }
            else {
                // a false result means "readers may still be around": the writer keeps tolerating them
                if (lock.stopAppendingAndRestoreExclusive()) { vf_assert(gShared == 0, "exclusive access restored while a shared holder exists"); gSharingOk = 0; h = hExcl; }
                else h = hStopped; // appending is off, but old readers may remain: the writer may only finish now
            }
            break;
        case hStopped:
            if (op == 1) { gExcl = 0; gSharingOk = 0; ++gShared; lock.switchExclusiveToShared(); h = hShared; }
            else { gExcl = 0; gSharingOk = 0; lock.unlockExclusive(); h = hNone; }
            break;
        }
        vf_yield(); // the critical section (or idle time): other threads may run here
    }
    // release whatever is still held
    switch (h) {
    case hShared: --gShared; lock.unlockShared(); break;
    case hHeaders: gUpdating = 0; --gShared; lock.unlockHeaders(); break;
    case hExcl: case hAppend: case hStopped: gExcl = 0; gSharingOk = 0; lock.unlockExclusive(); break;
    case hNone: break;
    }
}

static void run(const int nt, const int nops)
{
    NT = nt; NOPS = nops;
    vf_quiet();
    theLock = new Ipc::ReadWriteLock;
    theLock->updating.clear();
    gShared = gExcl = gSharingOk = gUpdating = 0;
    for (int t = 0; t < NT; ++t) vf_spawn(worker, nullptr);
    vf_join();
    Ipc::ReadWriteLock &lock = *theLock;
    vf_assert(gShared == 0 && gExcl == 0, "harness: ghost state empty after all releases");
    vf_assert(lock.readers == 0 && !lock.writing && !lock.appending, "lock is idle after every holder released");
    vf_assert(lock.lockExclusive(), "idle lock can be acquired exclusively");
    lock.unlockExclusive();
    vf_assert(lock.lockHeaders(), "idle lock can be acquired for header updates");
    lock.unlockHeaders();
    vf_assert(lock.lockShared(), "idle lock can be acquired shared");
    lock.unlockShared();
    vf_assert(lock.lockExclusive(), "lock can be acquired exclusively again");
    lock.unlockExclusive();
    vf_reach("done");
    WITNESS_POINT();
}
extern "C" void c54_rwlock_2x2(void) { run(2, 2); }
extern "C" void c54_rwlock_2x3(void) { run(2, 3); }
extern "C" void c54_rwlock_3x2(void) { run(3, 2); }
extern "C" void c54_rwlock_2x4(void) { run(2, 4); }
extern "C" void c54_rwlock_3x3(void) { run(3, 3); }
