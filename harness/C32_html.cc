// C32: html_quote neutralises markup and is reversible.
#include "squid.h"
#include "html/Quoting.h"
#include "common.h"
#define MAXN 1
// reference entity decoder
static unsigned refDecode(const char *q, unsigned char *out)
{
    unsigned o = 0;
    for (unsigned i = 0; q[i];) {
        if (q[i] != '&') { out[o++] = (unsigned char)q[i++]; continue; }
        if (!strncmp(q + i, "&lt;", 4)) { out[o++] = '<'; i += 4; }
        else if (!strncmp(q + i, "&gt;", 4)) { out[o++] = '>'; i += 4; }
        else if (!strncmp(q + i, "&quot;", 6)) { out[o++] = '"'; i += 6; }
        else if (!strncmp(q + i, "&amp;", 5)) { out[o++] = '&'; i += 5; }
        else if (!strncmp(q + i, "&apos;", 6)) { out[o++] = '\''; i += 6; }
        else if (q[i + 1] == '#') { unsigned v = 0, k = i + 2, nd = 0; while (q[k] >= '0' && q[k] <= '9') { v = v * 10 + (q[k] - '0'); ++k; ++nd; } vf_assert(nd > 0 && q[k] == ';' && v < 256, "well-formed numeric reference"); out[o++] = (unsigned char)v; i = k + 1; }
        else { vf_assert(0, "raw ampersand outside an entity reference"); ++i; }
    }
    return o;
}
// every string of 0..CTXN bytes over 17 class representatives in one call: whatever a byte's neighbours are (multi-byte lead bytes,
// continuation bytes, other metacharacters), each byte is neutralised and the whole decodes back
#ifdef VF_THOROUGH
#define CTXN 4
#else
#define CTXN 3
#endif
extern "C" void c32_html_context(void)
{
    vf_quiet();
    const unsigned n = (unsigned)vf_concretize(vf_range(0, CTXN, "len"));
    char *in = (char *)xmalloc(n + 1);
    for (unsigned i = 0; i < n; ++i) {
        // (a fully symbolic byte forks into ~165 escape-table classes; three of them do not finish) one representative per class that
        // could matter to a context-sensitive quoter: plain, the five metacharacters, ';' and '#', a control, DEL, UTF-8 continuation
        // bytes, 2-/3-/4-byte lead bytes, invalid lead bytes
        const unsigned char b = vf_nondet_u8("byte");
        vf_assume(b == 'a' || b == '<' || b == '>' || b == '"' || b == '\'' || b == '&' || b == ';' || b == '#' || b == 0x0b || b == 0x7f ||
                  b == 0x80 || b == 0xbf || b == 0xc2 || b == 0xe2 || b == 0xf0 || b == 0xf4 || b == 0xff);
        in[i] = (char)vf_concretize(b);   // fork into the 17 values here, once, instead of at every later table lookup
    }
    in[n] = 0;
    const char *q = html_quote(in);
    const size_t ql = strlen(q);
    vf_assert(ql <= 6 * (size_t)n, "quoted form fits 6*len");
    for (size_t i = 0; i < ql; ++i) vf_assert(q[i] != '<' && q[i] != '>' && q[i] != '"' && q[i] != '\'', "no raw markup metacharacter");
    unsigned char back[(CTXN + 1) * 6 + 8];
    const unsigned bl = refDecode(q, back);
    vf_assert(bl == n, "decoded length");
    for (unsigned i = 0; i < n; ++i) vf_assert(back[i] == (unsigned char)in[i], "decoding the entities returns the original");
    vf_observe("ql", ql);
    vf_reach("done");
    WITNESS_POINT();
}
extern "C" void c32_html_quote(void)
{
    vf_quiet();
    // two consecutive calls: covers the static buffer growth/reuse logic
    for (int round = 0; round < 2; ++round) {
        // first call: "" or one character of each output-length class (1, 4, 5 and 6 output bytes); second call: fully symbolic
        static const char first[5] = { 0, 'a', '<', '\x0b', '\x80' };
        // (thorough: the second string may also carry a second character, one of each output-length class)
        static const char second[3] = { 'a', '<', '\x80' };
        const unsigned sel = round ? 0 : (unsigned)vf_concretize(vf_range(0, 4, "first"));
        unsigned n = round ? (unsigned)vf_concretize(vf_range(0, MAXN, "len2")) : (sel ? 1 : 0);
        unsigned sel2 = 0;
#ifdef VF_THOROUGH
        if (round && n == 1) { sel2 = (unsigned)vf_concretize(vf_range(0, 3, "second")); if (sel2) n = 2; }
#endif
        char *in = (char *)xmalloc(n + 1);
        for (unsigned i = 0; i < n; ++i) {
            if (round && i == 0) { in[i] = (char)vf_nondet_u8("byte"); vf_assume(in[i] != 0); }
            else if (round) in[i] = second[sel2 - 1];
            else in[i] = first[sel];
        }
        in[n] = 0;
        const char *q = html_quote(in);
        const size_t ql = strlen(q);
        vf_assert(ql <= 6 * (size_t)n, "quoted form fits 6*len");
        for (size_t i = 0; i < ql; ++i) vf_assert(q[i] != '<' && q[i] != '>' && q[i] != '"' && q[i] != '\'', "no raw markup metacharacter");
        unsigned char back[(MAXN + 1) * 6 + 8];
        const unsigned bl = refDecode(q, back);
        vf_assert(bl == n, "decoded length");
        for (unsigned i = 0; i < n; ++i) vf_assert(back[i] == (unsigned char)in[i], "decoding the entities returns the original");
        vf_observe("ql", ql);
    }
    vf_reach("done");
    WITNESS_POINT();
}
