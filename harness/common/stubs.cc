// Environment stubs shared by the interpreted and the native (replay) build of every harness.
// Same source both sides, so interpreter and native behaviour are identical by construction.
#include "squid.h"
#include "debug/Stream.h"
#include "mem/AllocatorProxy.h"
#include "mem/forward.h"
#include "mem/Pool.h"
#include "time/gadgets.h"
#include <sstream>

// ---- debugging: every section disabled (harnesses set Levels to -1); bodies of debugs() are dead
int Debug::rotateNumber = 0;
int Debug::Levels[MAX_DEBUG_SECTIONS];
int Debug::override_X = 0;
bool Debug::log_syslog = false;
char *Debug::debugOptions = nullptr;
char *Debug::cache_log = nullptr;
static std::ostringstream *vf_dbg_stream;
std::ostringstream &Debug::Start(const int, const int) { if (!vf_dbg_stream) vf_dbg_stream = new std::ostringstream; return *vf_dbg_stream; }
void Debug::Finish() {}
bool Debug::StderrEnabled() { return false; }
void Debug::ForceAlert() {}
std::ostream &ForceAlert(std::ostream &s) { return s; }

// ---- memory pools: plain heap blocks of the exact object size
void *Mem::AllocatorProxy::alloc() { return doZero ? xcalloc(1, size) : xmalloc(size); }
void Mem::AllocatorProxy::freeOne(void *address) { xfree(address); }
int Mem::AllocatorProxy::inUseCount() const { return 0; }
void Mem::AllocatorProxy::zeroBlocks(bool doIt) { doZero = doIt; }
void *memAllocBuf(size_t net_size, size_t *gross_size)
{
    // mirrors mem/old_api.cc memFindBufSizeType(): pooled sizes are rounded up
    static const size_t sizes[] = {2*1024, 4*1024, 8*1024, 16*1024, 32*1024, 64*1024};
    size_t g = net_size;
    for (size_t s : sizes) if (net_size <= s) { g = s; break; }
    if (gross_size) *gross_size = g;
    return xmalloc(g);
}
void *memReallocBuf(void *oldbuf, size_t net_size, size_t *gross_size)
{
    size_t new_gross = 0;
    void *n = memAllocBuf(net_size, &new_gross);
    if (oldbuf) {
        const size_t data = *gross_size < new_gross ? *gross_size : new_gross;
        memcpy(n, oldbuf, data);
        xfree(oldbuf);
    }
    *gross_size = new_gross;
    return n;
}
void memFreeBuf(size_t, void *buf) { xfree(buf); }
void memFree(void *p, int) { xfree(p); }
static void vf_cxx_xfree(void *p) { xfree(p); }
FREE *memFreeBufFunc(size_t) { return vf_cxx_xfree; }
void *memAllocate(mem_type) { return xcalloc(1, 4096); }

// ---- time: plain globals set by harnesses
struct timeval current_time;
double current_dtime;
time_t squid_curtime = 0;
time_t getCurrentTime() { return squid_curtime; }
