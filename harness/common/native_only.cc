// Native replay only: allocation wrappers (the interpreter provides these as engine builtins).
#include <cstdlib>
#include <cstring>
#include <cstdio>
extern "C" {
void *xmalloc(size_t n) { void *p = malloc(n ? n : 1); if (!p) abort(); return p; }
void *xcalloc(size_t a, size_t b) { void *p = calloc(a ? a : 1, b ? b : 1); if (!p) abort(); return p; }
void *xrealloc(void *o, size_t n) { void *p = realloc(o, n ? n : 1); if (!p) abort(); return p; }
void xfree(void *p) { free(p); }
char *xstrdup(const char *s) { char *p = strdup(s); if (!p) abort(); return p; }
void free_const(const void *p) { free(const_cast<void *>(p)); }
}
