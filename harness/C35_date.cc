// C35: HTTP date formatting and parsing round-trip.
// Real code: Time::FormatRfc1123, Time::ParseRfc1123 -> parse_date -> parse_date_elements (make_month, make_num, tmSaneValues).
// libc's calendar functions (gmtime, strftime, timegm) have no bitcode; for the bitcode build they are defined below as
// contract models around ONE exact proleptic-Gregorian conversion written in the harness (civilToTime); the native
// replay/differential build uses the real libc, which validates that conversion on every sampled path.
//
// (A) c35_roundtrip: every time 1970-01-01 00:00:00 .. 9999-12-31 23:59:59. The inputs are the decimal digits of the calendar
//     fields (all symbolic, constrained to a valid date) and the month (case split); t is computed from them, so no symbolic
//     division is needed: gmtime(t) is "the fields t was built from" (calendar decomposition is unique), strftime prints the
//     digits the fields were built from. Asserted: ParseRfc1123(FormatRfc1123(t)) == t.
// (B) c35_imf / c35_rfc850 / c35_asctime: strings of the three forms with every digit symbolic (all digit values), month by
//     case split; c35_junk: one fully symbolic byte at every position of each form; c35_month: 3 fully symbolic month letters.
//     Oracle: a strict reference parser of the three grammars (RFC 7231 7.1.1.1) giving the denoted fields; asserted:
//     string is in one of the forms and Squid accepts (result != -1)  =>  result == civilToTime(denoted fields).
#include "squid.h"
#include "common.h"
#include "time/gadgets.h"
#include <cstring>
#include <ctime>

#ifdef VF_THOROUGH
#define T(quick, thorough) thorough
#else
#define T(quick, thorough) quick
#endif

struct Civil { int64_t year; int mon /* 0..11 */; int64_t mday, hour, min, sec; };
static const int cumDays[12] = {0, 31, 59, 90, 120, 151, 181, 212, 243, 273, 304, 334};
static const int monthLen[12] = {31, 28, 31, 30, 31, 30, 31, 31, 30, 31, 30, 31};
static const char *const monthName[12] = {"Jan", "Feb", "Mar", "Apr", "May", "Jun", "Jul", "Aug", "Sep", "Oct", "Nov", "Dec"};
static const char *const dayName3[7] = {"Sun", "Mon", "Tue", "Wed", "Thu", "Fri", "Sat"};
static const char *const dayNameFull[7] = {"Sunday", "Monday", "Tuesday", "Wednesday", "Thursday", "Friday", "Saturday"};

static int64_t floorDiv(int64_t a, int64_t b) { int64_t q = a / b; if ((a % b) != 0 && ((a < 0) != (b < 0))) --q; return q; }
static bool leapYear(int64_t y) { return (y % 4 == 0) && (y % 100 != 0 || y % 400 == 0); }
// exact seconds since 1970-01-01T00:00:00Z of a proleptic Gregorian date; mday/hour/min/sec enter linearly (as in timegm)
static int64_t civilToTime(const Civil &c)
{
    const int64_t y = c.year;
    const int64_t leapsUpTo = floorDiv(y, 4) - floorDiv(y, 100) + floorDiv(y, 400);      // leap years in (0, y]
    const bool leap = leapYear(y);
    const int64_t days = 365 * (y - 1970) + (leapsUpTo - (leap ? 1 : 0) - 477) + cumDays[c.mon] + ((leap && c.mon >= 2) ? 1 : 0) + (c.mday - 1);
    return days * 86400 + c.hour * 3600 + c.min * 60 + c.sec;
}
// the same for a year given by its digits: century C, year-in-century yy (divisions become shifts)
static int32_t civilToDaysDigits(const int32_t C, const int32_t yy, const Civil &c, bool &leapOut)
{
    const int32_t y = 100 * C + yy;
    const int32_t leapsUpTo = (y >> 2) - C + (C >> 2);
    const bool leap = ((yy & 3) == 0) & ((yy != 0) | ((C & 3) == 0));
    leapOut = leap;
    return 365 * (y - 1970) + (leapsUpTo - (leap ? 1 : 0) - 477) + cumDays[c.mon] + ((leap && c.mon >= 2) ? 1 : 0) + ((int32_t)c.mday - 1);
}
static int64_t civilToTimeDigits(const int64_t C, const int64_t yy, const Civil &c, bool &leapOut)
{
    return (int64_t)civilToDaysDigits((int32_t)C, (int32_t)yy, c, leapOut) * 86400 + c.hour * 3600 + c.min * 60 + c.sec;
}

// ---- what the harness knows about the date under test (read by the libc models of the bitcode build)
static struct Known {
    bool set;
    struct tm tm;            // broken-down fields (tm_year = year - 1900)
    time_t t;                // == civilToTime(fields)
    unsigned char Y[4], D[2], H[2], M[2], S[2];   // the decimal digits the fields were built from (round trip only)
    int wday;
} known;

#ifdef VF_BITCODE
extern "C" {
// timegm(): exact conversion; for the fields the harness derived itself the value is the one it computed from the digits
time_t timegm(struct tm *tm) noexcept
{
    if (known.set && tm->tm_year == known.tm.tm_year && tm->tm_mon == known.tm.tm_mon && tm->tm_mday == known.tm.tm_mday &&
            tm->tm_hour == known.tm.tm_hour && tm->tm_min == known.tm.tm_min && tm->tm_sec == known.tm.tm_sec)
        return known.t;
    if (tm->tm_mon < 0 || tm->tm_mon > 11) return -1;        // (not reached: tmSaneValues)
    const Civil c = { (int64_t)tm->tm_year + 1900, tm->tm_mon, tm->tm_mday, tm->tm_hour, tm->tm_min, tm->tm_sec };
    return (time_t)civilToTime(c);
}
// gmtime(): the unique broken-down form of known.t
struct tm *gmtime(const time_t *tp) noexcept
{
    vf_assert(known.set && *tp == known.t, "gmtime model: called with the time the harness prepared");
    return &known.tm;
}
// strftime() for the conversions of RFC1123_STRFTIME
size_t strftime(char *buf, size_t max, const char *fmt, const struct tm *tm) noexcept
{
    vf_assert(tm == &known.tm, "strftime model: called with gmtime()'s result");
    size_t n = 0;
#define PUT(ch) do { if (n + 1 >= max) return 0; buf[n++] = (char)(ch); } while (0)
    for (; *fmt; ++fmt) {
        if (*fmt != '%') { PUT(*fmt); continue; }
        ++fmt;
        switch (*fmt) {
        case 'a': for (const char *p = dayName3[known.wday]; *p; ++p) PUT(*p); break;
        case 'b': for (const char *p = monthName[tm->tm_mon]; *p; ++p) PUT(*p); break;
        case 'd': PUT('0' + known.D[0]); PUT('0' + known.D[1]); break;
        case 'H': PUT('0' + known.H[0]); PUT('0' + known.H[1]); break;
        case 'M': PUT('0' + known.M[0]); PUT('0' + known.M[1]); break;
        case 'S': PUT('0' + known.S[0]); PUT('0' + known.S[1]); break;
        case 'Y': for (int k = 0; k < 4; ++k) PUT('0' + known.Y[k]); break;
        case 'y': PUT('0' + known.Y[2]); PUT('0' + known.Y[3]); break;
        case 'A': for (const char *p = dayNameFull[known.wday]; *p; ++p) PUT(*p); break;
        default: vf_assert(0, "strftime model: conversion not modelled");
        }
    }
#undef PUT
    buf[n] = 0;
    return n;
}
}
#endif

static unsigned char digit(const char *name) { const unsigned char d = vf_nondet_u8(name); vf_assume(d <= 9); return d; }
static uint64_t hashStr(const char *s) { uint64_t h = 0; for (; *s; ++s) h = h * 131 + (unsigned char)*s; return h; }

// ---- (A) round trip
extern "C" void c35_roundtrip(void)
{
    vf_quiet();
    Known &k = known;
    for (int i = 0; i < 4; ++i) k.Y[i] = digit("Y");
    for (int i = 0; i < 2; ++i) k.D[i] = digit("D");
    for (int i = 0; i < 2; ++i) k.H[i] = digit("h");
    for (int i = 0; i < 2; ++i) k.M[i] = digit("m");
    for (int i = 0; i < 2; ++i) k.S[i] = digit("s");
    Civil c;
    c.mon = (int)vf_concretize(vf_range(0, 11, "month"));
    const int64_t C = 10 * k.Y[0] + k.Y[1], yy = 10 * k.Y[2] + k.Y[3];
    c.year = 100 * C + yy;
    c.mday = 10 * k.D[0] + k.D[1]; c.hour = 10 * k.H[0] + k.H[1]; c.min = 10 * k.M[0] + k.M[1]; c.sec = 10 * k.S[0] + k.S[1];
    vf_assume(c.year >= 1970);                                  // .. 9999 by construction
    vf_assume(c.hour <= 23 && c.min <= 59 && c.sec <= 59);
    bool leap;
    const int32_t days = civilToDaysDigits((int32_t)C, (int32_t)yy, c, leap);
    const int64_t t = (int64_t)days * 86400 + c.hour * 3600 + c.min * 60 + c.sec;
    vf_assume(c.mday >= 1 && c.mday <= monthLen[c.mon] + ((c.mon == 1 && leap) ? 1 : 0));
    // day of the week: (days since epoch + 4) mod 7, expressed without a division: days + 4 == 7 * week + wday (case split on wday)
    k.wday = (int)vf_concretize(vf_range(0, 6, "wday"));
    const uint32_t week = vf_nondet_u32("week");
    vf_assume(week < 500000 && days + 4 == (int32_t)(7 * week) + k.wday);
    memset(&k.tm, 0, sizeof(k.tm));
    k.tm.tm_year = (int)(c.year - 1900); k.tm.tm_mon = c.mon; k.tm.tm_mday = (int)c.mday;
    k.tm.tm_hour = (int)c.hour; k.tm.tm_min = (int)c.min; k.tm.tm_sec = (int)c.sec; k.tm.tm_wday = k.wday;
    k.t = (time_t)t; k.set = true;

    const char *text = Time::FormatRfc1123((time_t)t);
    vf_observe("t", (uint64_t)t); vf_observe("text", hashStr(text));
    const time_t back = Time::ParseRfc1123(text);
    vf_observe("back", (uint64_t)back);
    vf_assert(back == (time_t)t, "parsing the RFC 1123 date Squid formats returns the same time");
    vf_reach("done");
    WITNESS_POINT();
}

// ---- (B) strict reference parser of the three forms
static bool isDig(unsigned char c) { return c >= '0' && c <= '9'; }
static bool eq(const unsigned char *s, const char *lit) { for (; *lit; ++lit, ++s) if (*s != (unsigned char)*lit) return false; return true; }
static int refMonth(const unsigned char *s) { for (int m = 0; m < 12; ++m) if (eq(s, monthName[m])) return m; return -1; }
static bool two(const unsigned char *s, int64_t &v) { if (!isDig(s[0]) || !isDig(s[1])) return false; v = 10 * (s[0] - '0') + (s[1] - '0'); return true; }
// HH:MM:SS at s
static bool refTime(const unsigned char *s, Civil &c) { return two(s, c.hour) && s[2] == ':' && two(s + 3, c.min) && s[5] == ':' && two(s + 6, c.sec); }

struct Ref { bool inForm, denotes; Civil c; int64_t C, yy; };
static Ref reference(const unsigned char *s, const unsigned n)
{
    Ref r; r.inForm = r.denotes = false; r.c.mon = 0;
    int64_t hi, lo;
    // IMF-fixdate: "Sun, 06 Nov 1994 08:49:37 GMT"
    if (n == 29) {
        bool wd = false; for (int d = 0; d < 7; ++d) wd = wd || eq(s, dayName3[d]);
        const int m = refMonth(s + 8);
        if (wd && s[3] == ',' && s[4] == ' ' && two(s + 5, r.c.mday) && s[7] == ' ' && m >= 0 && s[11] == ' ' && two(s + 12, hi) && two(s + 14, lo) &&
                s[16] == ' ' && refTime(s + 17, r.c) && s[25] == ' ' && eq(s + 26, "GMT")) {
            r.inForm = true; r.c.mon = m; r.C = hi; r.yy = lo;
        }
    }
    // asctime: "Sun Nov  6 08:49:37 1994"
    if (!r.inForm && n == 24) {
        bool wd = false; for (int d = 0; d < 7; ++d) wd = wd || eq(s, dayName3[d]);
        const int m = refMonth(s + 4);
        bool day = false;
        if (s[8] == ' ' && isDig(s[9])) { r.c.mday = s[9] - '0'; day = true; } else day = two(s + 8, r.c.mday);
        if (wd && s[3] == ' ' && m >= 0 && s[7] == ' ' && day && s[10] == ' ' && refTime(s + 11, r.c) && s[19] == ' ' && two(s + 20, hi) && two(s + 22, lo)) {
            r.inForm = true; r.c.mon = m; r.C = hi; r.yy = lo;
        }
    }
    // rfc850-date: "Sunday, 06-Nov-94 08:49:37 GMT"
    if (!r.inForm) {
        for (int d = 0; d < 7 && !r.inForm; ++d) {
            const unsigned L = strlen(dayNameFull[d]);
            if (n != L + 24 || !eq(s, dayNameFull[d])) continue;
            const unsigned char *p = s + L;
            const int m = refMonth(p + 5);
            if (p[0] == ',' && p[1] == ' ' && two(p + 2, r.c.mday) && p[4] == '-' && m >= 0 && p[8] == '-' && two(p + 9, lo) && p[11] == ' ' &&
                    refTime(p + 12, r.c) && p[20] == ' ' && eq(p + 21, "GMT")) {
                r.inForm = true; r.c.mon = m; r.yy = lo;
                r.C = lo < 70 ? 20 : 19;                      // Squid's documented reading of two-digit years: 70..99 -> 19yy, 00..69 -> 20yy
            }
        }
    }
    // in the form, but no time of day / day of month: denotes nothing (23:59:60 is the leap second)
    r.denotes = r.inForm && r.c.hour <= 23 && r.c.min <= 59 && r.c.sec <= 60 && r.c.mday >= 1 && r.c.mday <= 31;
    return r;
}

static bool onlyDayNotInMonth = false;   // set by c35_known_day_not_in_month only
static void checkParse(const unsigned char *s, const unsigned n)
{
    vf_quiet();
    const Ref r = reference(s, n);
    known.set = false;
    bool dayExists = true;
    if (onlyDayNotInMonth) vf_assume(r.denotes);
    if (r.denotes) {
        bool leap;
        Civil c = r.c; c.year = 100 * r.C + r.yy;
        const int64_t t = civilToTimeDigits(r.C, r.yy, c, leap);
        // KNOWN FINDING (known_findings.json, C35-day-not-in-month): a day of month that the month does not have ("Tue, 31 Feb 2021
        // ...", "29 Feb" of a common year) is accepted (tmSaneValues() only checks 1..31) and timegm() normalises it into the next
        // month, so Squid returns a time for a string that denotes none. The class is examined by c35_known_day_not_in_month
        // only; every other entry excludes exactly it.
        dayExists = c.mday <= monthLen[c.mon] + ((c.mon == 1 && leap) ? 1 : 0);
        vf_assume(dayExists == !onlyDayNotInMonth);
        memset(&known.tm, 0, sizeof(known.tm));
        known.tm.tm_year = (int)(c.year - 1900); known.tm.tm_mon = c.mon; known.tm.tm_mday = (int)c.mday;
        known.tm.tm_hour = (int)c.hour; known.tm.tm_min = (int)c.min; known.tm.tm_sec = (int)c.sec;
        known.t = (time_t)t; known.set = true;
    }
    const time_t got = Time::ParseRfc1123(reinterpret_cast<const char *>(s));
    vf_observe("inForm", r.inForm); vf_observe("got", (uint64_t)got);
    const bool accepted = vf_concretize(got != -1) != 0;        // one path per outcome (keeps the vf_reach labels concrete)
    if (r.inForm && accepted) {
        vf_assert(r.denotes, "an accepted date in IMF-fixdate, RFC 850 or asctime form denotes a time (hour <= 23, minute <= 59, second <= 60, day 1..31)");
        vf_assert(dayExists, "an accepted date in IMF-fixdate, RFC 850 or asctime form names a day the month has");
        vf_assert(got == known.t, "an accepted date in IMF-fixdate, RFC 850 or asctime form yields the time it denotes");
        vf_reach("accepted");
    } else if (accepted)
        vf_reach("accepted-other");      // not one of the three forms: the property says nothing about the value
    else
        vf_reach("rejected");
    WITNESS_POINT();
}

enum Form { IMF, RFC850, ASCTIME };
// builds a date of the given form; digits[] supplies DD YYYY HH MM SS (12 bytes; RFC 850 uses the last two year digits)
static unsigned build(unsigned char *out, const Form f, const int wday, const int mon, const unsigned char *g)
{
    unsigned n = 0;
#define LIT(str) do { for (const char *p_ = (str); *p_; ++p_) out[n++] = (unsigned char)*p_; } while (0)
    if (f == IMF) {
        LIT(dayName3[wday]); LIT(", "); out[n++] = g[0]; out[n++] = g[1]; LIT(" "); LIT(monthName[mon]); LIT(" ");
        out[n++] = g[2]; out[n++] = g[3]; out[n++] = g[4]; out[n++] = g[5]; LIT(" ");
    } else if (f == RFC850) {
        LIT(dayNameFull[wday]); LIT(", "); out[n++] = g[0]; out[n++] = g[1]; LIT("-"); LIT(monthName[mon]); LIT("-"); out[n++] = g[4]; out[n++] = g[5]; LIT(" ");
    } else {
        LIT(dayName3[wday]); LIT(" "); LIT(monthName[mon]); LIT(" "); out[n++] = g[0]; out[n++] = g[1]; LIT(" ");
    }
    out[n++] = g[6]; out[n++] = g[7]; LIT(":"); out[n++] = g[8]; out[n++] = g[9]; LIT(":"); out[n++] = g[10]; out[n++] = g[11];
    if (f == ASCTIME) { LIT(" "); out[n++] = g[2]; out[n++] = g[3]; out[n++] = g[4]; out[n++] = g[5]; } else LIT(" GMT");
#undef LIT
    out[n] = 0;
    return n;
}

// every digit symbolic (all ten values), month by case split
static void digitsFamily(const Form f)
{
    unsigned char g[12], s[48];
    for (int i = 0; i < 12; ++i) g[i] = '0' + digit("digit");
    if (f == ASCTIME && vf_bool("padded")) g[0] = ' ';          // asctime pads a one-digit day with a space
    const int mon = (int)vf_concretize(vf_range(0, 11, "month"));
    const unsigned n = build(s, f, 3, mon, g);
    checkParse(s, n);
}
extern "C" void c35_imf(void) { digitsFamily(IMF); }
extern "C" void c35_rfc850(void) { digitsFamily(RFC850); }
extern "C" void c35_asctime(void) { digitsFamily(ASCTIME); }

// one (thorough: two adjacent) fully symbolic byte(s) at every position of a concrete date of each form
extern "C" void c35_junk(void)
{
    static const unsigned char g[12] = {'0', '6', '1', '9', '9', '4', '0', '8', '4', '9', '3', '7'};
    unsigned char s[48];
    const Form f = (Form)vf_concretize(vf_range(0, 2, "form"));
    const unsigned n = build(s, f, 0, 10, g);
    const unsigned pos = (unsigned)vf_concretize(vf_range(0, n - 1, "pos"));
    s[pos] = vf_nondet_u8("junk");
#ifdef VF_THOROUGH
    if (pos + 1 < n) s[pos + 1] = vf_nondet_u8("junk");
#endif
    checkParse(s, n);
}

// month letters fully symbolic
extern "C" void c35_month(void)
{
    static const unsigned char g[12] = {'2', '9', '2', '0', '2', '4', '2', '3', '5', '9', '5', '9'};
    unsigned char s[48];
    const Form f = (Form)vf_concretize(vf_range(0, T(0, 2), "form"));    // quick: IMF-fixdate only (make_month() is shared by the three forms)
    const unsigned n = build(s, f, 4, 0, g);
    const unsigned m0 = f == IMF ? 8 : f == ASCTIME ? 4 : (unsigned)strlen(dayNameFull[4]) + 5;   // where the month name starts
    for (unsigned i = 0; i < 3; ++i) s[m0 + i] = vf_nondet_u8("letter");
    checkParse(s, n);
}

// KNOWN FINDING (known_findings.json, C35-day-not-in-month): 'Wed, DD Feb 2021 00:00:00 GMT' with a day February 2021 does not have
extern "C" void c35_known_day_not_in_month(void)
{
    onlyDayNotInMonth = true;
    unsigned char g[12] = {'0', '0', '2', '0', '2', '1', '0', '0', '0', '0', '0', '0'}, s[48];
    g[0] = '0' + digit("digit"); g[1] = '0' + digit("digit");
    const unsigned n = build(s, IMF, 3, 1, g);
    checkParse(s, n);
}
