// Shared by the C13 and C14 harnesses (same author): private access to the Squid classes the caching kernels read, and
// helpers for zeroed raw objects of heavyweight classes (constructor chains that need the whole proxy are not run; the
// members a kernel reads are constructed/set by the harness and listed in the spec's `stubs`).
#pragma once
#include "squid.h"
#include <sstream>
#include <functional>
#include <chrono>
#include <atomic>
#include <iostream>
#include <string>
#include <vector>
#include <list>
#include <map>
#include <unordered_map>
#include <memory>
#include <algorithm>
#include <optional>
#include "debug/Stream.h"
#include "SquidString.h"
#include "sbuf/SBuf.h"
#include "base/RefCount.h"
#include "base/TextException.h"
#define private public
#define protected public
#include "http.h"
#include "HttpRequest.h"
#include "HttpReply.h"
#include "Store.h"
#include "MemObject.h"
#undef private
#undef protected
#include "HttpHeader.h"
#include "http/RegisteredHeaders.h"
#include "SquidConfig.h"
#include "StatHist.h"
#include "common.h"
#include <new>
#include <cstring>

// per-header statistics histograms (StatHist.cc is not linked)
void StatHist::enumInit(unsigned int) {}
void StatHist::count(double) {}

// vacuity label chosen by a (possibly symbolic) condition. optnone: clang otherwise merges the two calls into one call whose
// argument is a select between string literals, which the engine cannot resolve to a label
__attribute__((optnone, noinline)) static void reachEither(const bool c, const char *yes, const char *no)
{
    if (c) vf_reach(yes);
    else if (no) vf_reach(no);
}

template <class T> static inline T *rawObject() { return static_cast<T *>(xcalloc(1, sizeof(T))); }
// RefCount<T> has exactly one member (the raw pointer); written directly because a never-constructed object has no
// working Lock base; the objects are never destroyed
template <class P, class T> static inline void rawPointer(P &p, T *t) { static_assert(sizeof(P) == sizeof(T *), "RefCount layout"); memcpy(&p, &t, sizeof(t)); }

// one request header field as HttpHeader::parse() stores it: id from the registered-name table (OTHER for extension names)
static inline void addField(HttpHeader &hdr, const char *name, const char *value)
{
    const SBuf n(name);
    Http::HdrType id = Http::HeaderLookupTable.lookup(n).id;
    if (id == Http::HdrType::BAD_HDR) id = Http::HdrType::OTHER;
    hdr.addEntry(new HttpHeaderEntry(id, n, value));
}
