// C29: Cache-Control directives parse and re-serialise faithfully.
// Real code: HttpHdrCc::parse (strListGetItem, LookupTable<HttpHdrCcType>, httpHeaderParseInt, httpHeaderParseQuotedString),
// HttpHdrCc::packInto (MemBuf::appendf), then HttpHdrCc::parse again on the packed text.
// Symbolic: bytes of the field value at the decision points of concrete skeletons (arguments, separators, name letters)
// and short fully symbolic values; NUL-free.
// Oracle: (1) an independent reference parser (below) of  #( name [ "=" argument ] )  giving mask, the five numbers,
// the private/no-cache field lists and the text of the unrecognised directives; (2) pack -> parse fixpoint on all of those.
#include "squid.h"
#include "common.h"
#include "MemBuf.h"
#include "SquidString.h"
#include "defines.h"
#include "dlink.h"
#include "mem/forward.h"
#include <cstring>
#include <iosfwd>
#define private public          // the parsed state (mask, values, field lists) is private; every header HttpHdrCc.h needs is already included
#include "HttpHdrCc.h"
#undef private

#ifdef VF_BITCODE
// libstdc++.so's out-of-line bucket-count policy of std::unordered_map (LookupTable<HttpHdrCcType>); no bitcode exists for it.
// Same contract (grow to a prime >= the request when the load factor would exceed max_load_factor); the bucket count is
// unobservable through find()/operator[].
#include <unordered_map>
namespace std { namespace __detail {
size_t _Prime_rehash_policy::_M_next_bkt(size_t n) const
{
    static const size_t primes[] = {2, 3, 5, 7, 11, 13, 17, 19, 23, 29, 31, 37, 41, 47, 53, 59, 67, 79, 97, 127, 257, 521, 1031, 2053, 4099};
    size_t r = primes[sizeof(primes) / sizeof(*primes) - 1];
    for (size_t p : primes) if (p >= n) { r = p; break; }
    _M_next_resize = (size_t)((double)r * (double)_M_max_load_factor);
    return r;
}
pair<bool, size_t> _Prime_rehash_policy::_M_need_rehash(size_t nBkt, size_t nElt, size_t nIns) const
{
    if (nElt + nIns > _M_next_resize) {
        const double minBkts = (double)(nElt + nIns) / (double)_M_max_load_factor;
        if (minBkts >= (double)nBkt) {
            const size_t want = (size_t)minBkts + 1;
            return make_pair(true, _M_next_bkt(want > nBkt * 2 ? want : nBkt * 2));
        }
        _M_next_resize = (size_t)((double)nBkt * (double)_M_max_load_factor);
    }
    return make_pair(false, (size_t)0);
}
} }
// The hash of LookupTable's unordered_map. Any function that maps equal keys to equal values is a correct hash; the real one
// (src/sbuf/Algorithms.cc: xor of 271*tolower(byte), then % bucket count inside libstdc++) makes every lookup of a name with a
// symbolic byte a 64-bit remainder problem for the solver. The bitcode build uses a constant, so a lookup is the chain walk
// with the real CaseInsensitiveSBufEqual; the native replay/differential build links the real Algorithms.cc.
#include "sbuf/Algorithms.h"
std::size_t CaseInsensitiveSBufHash::operator()(const SBuf &) const noexcept { return 0; }
#endif

#ifdef VF_THOROUGH
#define T(quick, thorough) thorough
#else
#define T(quick, thorough) quick
#endif
#define MAXTXT 72

static bool isCSpace(unsigned char c) { return c == ' ' || (c >= 9 && c <= 13); }   // C isspace()
static bool isListWs(unsigned char c) { return isCSpace(c); }                         // whitespace around list items, as Squid's lists define it
static bool isDig(unsigned char c) { return c >= '0' && c <= '9'; }
static unsigned char low(unsigned char c) { return (c >= 'A' && c <= 'Z') ? c + 32 : c; }

static const char *const ccNames[CC_OTHER] = { "public", "private", "no-cache", "no-store", "no-transform", "must-revalidate",
    "proxy-revalidate", "max-age", "s-maxage", "max-stale", "min-fresh", "only-if-cached", "stale-if-error", "immutable" };

struct Txt { unsigned char s[MAXTXT]; unsigned n; void add(unsigned char c) { if (n < MAXTXT) s[n] = c; ++n; } };
struct RefCc {
    unsigned mask;
    int32_t num[CC_OTHER];          // value of the numeric directives, indexed by type
    Txt priv, nocache, other;
    bool exAtoi, exQuoted;          // the input belongs to the class of known finding C29-atoi-values / C29-quoted-string
};

static int refType(const unsigned char *s, const unsigned b, const unsigned e)
{
    for (int t = 0; t < CC_OTHER; ++t) {
        const char *nm = ccNames[t];
        unsigned i = 0;
        while (b + i < e && nm[i] && low(s[b + i]) == (unsigned char)nm[i]) ++i;
        if (b + i == e && !nm[i]) return t;
    }
    return CC_OTHER;
}

// delta-seconds argument s[b..e): 0 = invalid/negative/too big (treated as absent), 1 = valid (v), 2 = invalid and in the class of known finding C29-atoi-values
static int refNumber(const unsigned char *s, const unsigned b, const unsigned e, int32_t &v)
{
    unsigned i = b;
    const bool neg = i < e && s[i] == '-';
    if (neg) ++i;
    unsigned long long acc = 0; bool huge = false;
    const unsigned d0 = i;
    for (; i < e && isDig(s[i]); ++i) { if (acc > (1ULL << 62) / 10) huge = true; else acc = acc * 10 + (s[i] - '0'); }
    if (i == e && i > d0) {                                       // ["-"] 1*DIGIT and nothing else
        if (neg) return 0;                                        // negative (also "-0")
        if (!huge && acc <= 0x7fffffffULL) { v = (int32_t)acc; return 1; }
        // KNOWN FINDING (known_findings.json, C29-atoi-values): httpHeaderParseInt() is atoi(): a value in [2^31, 2^63) is silently
        // reduced modulo 2^32, so "max-age=4294967296" is taken as max-age=0 and "max-age=4294967301" as 5 instead of being
        // treated as absent. The class is exactly where the reduced value is non-negative (elsewhere Squid does treat the
        // directive as absent).
        const long long clamped = huge || acc > 0x7fffffffffffffffULL ? 0x7fffffffffffffffLL : (long long)acc;
        return (int32_t)(uint32_t)(unsigned long long)clamped >= 0 ? 2 : 0;
    }
    // KNOWN FINDING (same id): atoi() also skips leading C whitespace and a sign and ignores whatever follows the digits, so
    // "max-age=5x", "max-age= 5", "max-age=+5", "max-age=5 5" are accepted as 5. The class: arguments that are not ["-"]1*DIGIT
    // but from which atoi() reads a number.
    unsigned j = b;
    while (j < e && isCSpace(s[j])) ++j;
    if (j < e && (s[j] == '-' || s[j] == '+')) ++j;
    return (j < e && isDig(s[j])) ? 2 : 0;
}

// quoted-string argument s[b..e), strictly by RFC 7230 3.2.6: true = valid (unescaped text in out).
// KNOWN FINDING (known_findings.json, C29-quoted-string): httpHeaderParseQuotedString() (a) mishandles quoted-pairs: after
// skipping the backslash its scan for the end of the literal run stops at once on '"' or '\\' and nothing is appended, so an
// escaped quote ends the string (no-cache="a\"b" is taken as "a"; no-cache="a\" with no closing quote is accepted), "a\\b"
// loses its backslash, and a backslash before CR/LF is dropped and the line fold honoured; (b) stops at the closing quote and
// ignores the rest of the argument (private="a"junk is taken as private="a"); (c) rejects HTAB, which is valid qdtext
// (no-cache="a,\tb" is dropped, private="a\tb" loses its field list). cls is set for exactly these arguments: a backslash
// followed by '"', '\\', HTAB, CR or LF inside the quotes; text after the closing quote; HTAB inside the quotes.
static bool refQuoted(const unsigned char *s, const unsigned b, const unsigned e, Txt &out, bool &cls)
{
    out.n = 0;
    if (b >= e || s[b] != '"') return false;
    unsigned i = b + 1;
    for (;;) {
        if (i >= e) return false;                                 // no closing quote
        const unsigned char c = s[i];
        if (c == '"') { if (i + 1 == e) return true; cls = true; return false; }   // more text after the closing quote: not a quoted-string
        if (c == '\\') {                                          // quoted-pair = "\" ( HTAB / SP / VCHAR / obs-text )
            if (i + 1 >= e) return false;
            const unsigned char x = s[i + 1];
            if (x == '\r' || x == '\n') { cls = true; return false; }
            if ((x <= 0x1f && x != '\t') || x == 0x7f) return false;
            if (x == '"' || x == '\\' || x == '\t') cls = true;
            out.add(x); i += 2; continue;
        }
        if (c == '\r' || c == '\n') {                             // a folded line inside the string: [CR] LF (SP|HT) reads as one space
            if (c == '\r') { ++i; if (i >= e || s[i] != '\n') return false; }
            ++i; if (i >= e || (s[i] != ' ' && s[i] != '\t')) return false;
            out.add(' '); ++i; continue;
        }
        if (c == '\t') cls = true;                                // HTAB is qdtext
        else if (c <= 0x1f || c == 0x7f) return false;
        out.add(c); ++i;
    }
}

static RefCc reference(const unsigned char *s, const unsigned len)
{
    RefCc r; r.mask = 0; r.priv.n = r.nocache.n = r.other.n = 0; r.exAtoi = r.exQuoted = false;
    for (int t = 0; t < CC_OTHER; ++t) r.num[t] = -1;
    unsigned i = 0;
    for (;;) {
        while (i < len && (isListWs(s[i]) || s[i] == ',')) ++i;
        if (i >= len) break;
        const unsigned b = i;
        bool quoted = false;
        for (; i < len; ++i) {
            if (s[i] == '"') quoted = !quoted;
            else if (quoted && s[i] == '\\') { if (i + 1 < len) ++i; }
            else if (!quoted && s[i] == ',') break;
        }
        unsigned e = i;
        while (e > b && isCSpace(s[e - 1])) --e;
        unsigned q = b; while (q < e && s[q] != '=') ++q;         // name [ "=" argument ]
        const bool hasArg = q < e;
        const unsigned a = q + 1;
        const int t = refType(s, b, q);
        if (t != CC_OTHER && (r.mask & (1u << t))) continue;      // a repeated directive is ignored: the first valid one counts
        switch (t) {
        case CC_MAX_AGE: case CC_S_MAXAGE: case CC_MIN_FRESH: case CC_STALE_IF_ERROR: case CC_MAX_STALE: {
            int32_t v = -1;
            const int k = hasArg ? refNumber(s, a, e, v) : 0;
            if (k == 2) r.exAtoi = true;                          // (strictly: an invalid value, handled like k == 0)
            if (k == 1) { r.mask |= 1u << t; r.num[t] = v; }
            else if (t == CC_MAX_STALE) { r.mask |= 1u << t; r.num[t] = HttpHdrCc::MAX_STALE_ANY; }   // max-stale needs no value: "any staleness"
            break;
        }
        case CC_PRIVATE: case CC_NO_CACHE: {
            Txt val; val.n = 0;
            const bool k = hasArg ? refQuoted(s, a, e, val, r.exQuoted) : true;
            if (k) { r.mask |= 1u << t; (t == CC_PRIVATE ? r.priv : r.nocache) = val; }
            else if (t == CC_PRIVATE) r.mask |= 1u << t;          // "to be safe ... always remember the 'private' part"
            break;
        }
        case CC_OTHER:
            if (r.other.n) { r.other.add(','); r.other.add(' '); }
            for (unsigned k = b; k < e; ++k) r.other.add(s[k]);
            break;
        default:                                                  // flags: any argument is ignored
            r.mask |= 1u << t;
        }
    }
    return r;
}

static bool sameText(const String &a, const Txt &t)
{
    if (a.size() != t.n) return false;
    for (unsigned i = 0; i < t.n && i < MAXTXT; ++i) if ((unsigned char)a.rawBuf()[i] != t.s[i]) return false;
    return true;
}
static bool sameString(const String &a, const String &b)
{
    if (a.size() != b.size()) return false;
    for (size_t i = 0; i < a.size(); ++i) if (a.rawBuf()[i] != b.rawBuf()[i]) return false;
    return true;
}
static uint64_t strHash(const String &a) { uint64_t h = a.size(); for (size_t i = 0; i < a.size(); ++i) h = h * 131 + (unsigned char)a.rawBuf()[i]; return h; }

static bool onlyAtoi = false, onlyQuoted = false;    // set by c29_known_atoi / c29_known_quoted_string only
static void checkCc(const unsigned char *text, const unsigned len, const bool allValues = false)
{
    vf_quiet();
    for (unsigned i = 0; i < len; ++i) vf_assume(text[i] != 0);   // a header field value cannot contain NUL
    const RefCc ref = reference(text, len);
    // the two recorded finding classes are examined, with the same strict assertions, by c29_known_atoi / c29_known_quoted_string
    // only; every other entry excludes exactly them
    vf_assume(ref.exAtoi == onlyAtoi && ref.exQuoted == onlyQuoted);
    String value;
    value.assign(reinterpret_cast<const char *>(text), (int)len);
    HttpHdrCc cc;
    const bool ok = cc.parse(value);
    vf_observe("ok", ok); vf_observe("mask", (uint32_t)cc.mask); vf_observe("max_age", (uint32_t)cc.max_age); vf_observe("max_stale", (uint32_t)cc.max_stale);
    vf_observe("private", strHash(cc.private_)); vf_observe("no_cache", strHash(cc.no_cache)); vf_observe("other", strHash(cc.other));
    vf_assert((unsigned)cc.mask == ref.mask, "exactly the recognised directives present (with valid arguments) are set");
    vf_assert(ok == (ref.mask != 0), "parse() reports whether any recognised directive was found");
    vf_assert(cc.max_age == ref.num[CC_MAX_AGE] && cc.s_maxage == ref.num[CC_S_MAXAGE] && cc.max_stale == ref.num[CC_MAX_STALE] &&
              cc.min_fresh == ref.num[CC_MIN_FRESH] && cc.stale_if_error == ref.num[CC_STALE_IF_ERROR],
              "numeric directives carry exactly the written value; invalid, negative and too large values are absent");
    vf_assert(ref.priv.n <= MAXTXT && sameText(cc.private_, ref.priv), "private carries exactly the quoted field list");
    vf_assert(ref.nocache.n <= MAXTXT && sameText(cc.no_cache, ref.nocache), "no-cache carries exactly the quoted field list");
    vf_assert(ref.other.n <= MAXTXT && sameText(cc.other, ref.other), "unrecognised directives are kept verbatim, in order");
    if (onlyAtoi || onlyQuoted) return;                           // known entries: the strict parse assertions above and nothing else
    if (!ok) { vf_reach("none"); WITNESS_POINT(); return; }
    // ---- pack and parse again
    // one path per parsed numeric value: printing a symbolic number (64-bit division chain in the printf model) is what the solver
    // cannot afford; every value the symbolic digits can produce is still covered
    if (!allValues) {   // the round trip is run for one-digit values, values from 2147483640 and absent (-1) only (c29_num_values: every value)
        const int32_t v[5] = { cc.max_age, cc.s_maxage, cc.max_stale, cc.min_fresh, cc.stale_if_error };
        bool small = true;
        for (int k = 0; k < 5; ++k) small = small & (v[k] < 10 || v[k] >= 2147483640);
        if (!small) { vf_reach("some"); WITNESS_POINT(); return; }
    }
    vf_concretize((uint32_t)cc.max_age); vf_concretize((uint32_t)cc.s_maxage); vf_concretize((uint32_t)cc.max_stale);
    vf_concretize((uint32_t)cc.min_fresh); vf_concretize((uint32_t)cc.stale_if_error);
    MemBuf mb;
    mb.init();
    cc.packInto(&mb);
    String packed;
    packed.assign(mb.content(), (int)mb.contentSize());
    vf_observe("packed", strHash(packed));
    HttpHdrCc cc2;
    const bool ok2 = cc2.parse(packed);
    vf_assert(ok2 && cc2.mask == cc.mask, "pack -> parse keeps the set of directives");
    vf_assert(cc2.max_age == cc.max_age && cc2.s_maxage == cc.s_maxage && cc2.max_stale == cc.max_stale && cc2.min_fresh == cc.min_fresh &&
              cc2.stale_if_error == cc.stale_if_error, "pack -> parse keeps the numeric values");
    vf_assert(sameString(cc2.private_, cc.private_) && sameString(cc2.no_cache, cc.no_cache), "pack -> parse keeps the field lists");
    vf_assert(sameString(cc2.other, cc.other), "pack -> parse keeps the unrecognised directives");
    vf_reach("some");
    mb.clean();
    WITNESS_POINT();
}

#define FAMILY(fn, lit) extern "C" void fn(void) { \
    static const char t[] = lit; unsigned char in[sizeof(t)]; \
    for (unsigned i = 0; i < sizeof(t); ++i) in[i] = t[i] == '\x01' ? vf_nondet_u8("b") : (unsigned char)t[i]; \
    checkCc(in, sizeof(t) - 1); }

// numeric arguments of each numeric directive (name chosen by a case split)
extern "C" void c29_num(void)
{
    static const int types[5] = { CC_MAX_AGE, CC_S_MAXAGE, CC_MAX_STALE, CC_MIN_FRESH, CC_STALE_IF_ERROR };
    const char *nm = ccNames[types[vf_concretize(vf_range(0, 4, "directive"))]];
    unsigned char in[MAXTXT]; unsigned n = 0;
    for (const char *p = "public, "; *p; ++p) in[n++] = *p;
    for (; *nm; ++nm) in[n++] = *nm;
    in[n++] = '=';
    for (unsigned k = 0; k < 2; ++k) in[n++] = vf_nondet_u8("b");
    in[n] = 0;
    checkCc(in, n);
}
#ifdef VF_THOROUGH
// pack -> parse for every two-digit value (the other families run the round trip for one-digit and boundary values only)
extern "C" void c29_num_values(void)
{
    static const char t[] = "max-age=\x01\x01"; unsigned char in[sizeof(t)];
    for (unsigned i = 0; i < sizeof(t); ++i) in[i] = t[i] == '\x01' ? vf_nondet_u8("b") : (unsigned char)t[i];
    checkCc(in, sizeof(t) - 1, true);
}
#endif
// values around 2^31, 2^32 and 2^63
FAMILY(c29_num_31, "max-age=214748364\x01\x01")
FAMILY(c29_num_32, "no-store, s-maxage=429496729\x01\x01")
FAMILY(c29_num_63, "min-fresh=922337203685477580\x01\x01")
// quoted field lists
FAMILY(c29_private, "private=\x01\x01\x01\x01")
FAMILY(c29_nocache, "no-cache=\x01" "a\x01\x01\x01")
FAMILY(c29_quoted_list, "no-cache=\"a\x01" "b\"\x01" "private=\"\x01\"")
// separators, whitespace, quotes between directives
FAMILY(c29_list, "public\x01\x01no-store\x01max-age=1")
// duplicates: first valid occurrence counts
FAMILY(c29_dup_num, T("max-age=\x01, max-age=\x01, max-stale", "max-age=\x01, max-age=\x01, max-stale\x01\x01"))
FAMILY(c29_stale, "no-store, max-stale\x01\x01\x01")
FAMILY(c29_dup_list, "no-cache\x01\x01, private, no-cache, private=\"x\"")
// name letters: case variants and near misses; unrecognised directives
FAMILY(c29_case, "\x01ublic, no-\x01tore, x\x01")
FAMILY(c29_other, T("immutable, \x01\x01, y\x01", "immutable, \x01\x01\x01, y=\x01"))
#ifdef VF_THOROUGH
FAMILY(c29_private5, "private=\"\x01\x01\x01\x01\x01")
FAMILY(c29_list5, "only-if-cached\x01\x01must-revalidate\x01\x01proxy-revalidate")
#endif

// short fully symbolic values
#define NANY T(3, 4)
extern "C" void c29_any(void)
{
    const unsigned n = (unsigned)vf_concretize(vf_range(0, NANY, "len"));
    unsigned char in[NANY + 1];
    for (unsigned i = 0; i < n; ++i) in[i] = vf_nondet_u8("b");
    in[n] = 0;
    checkCc(in, n);
}

// KNOWN FINDING (known_findings.json, C29-atoi-values): leniency ('5x', ' 5', '+5') and wrap of values >= 2^31
extern "C" void c29_known_atoi(void)
{
    onlyAtoi = true;
    static const char *const l[2] = { "max-age=\x01\x01", "max-age=429496729\x01" };
    const char *t = l[vf_concretize(vf_range(0, 1, "family"))];
    unsigned char in[MAXTXT]; unsigned n = 0;
    for (; *t; ++t) in[n++] = *t == '\x01' ? vf_nondet_u8("b") : (unsigned char)*t;
    in[n] = 0;
    checkCc(in, n);
}
// KNOWN FINDING (known_findings.json, C29-quoted-string): quoted-pairs, text after the closing quote, HTAB
FAMILY(c29_known_quoted_string_, "no-cache=\"\x01\x01\"")
extern "C" void c29_known_quoted_string(void) { onlyQuoted = true; c29_known_quoted_string_(); }
