// Shared by the C11 and C12 harnesses (same author, same object construction): private access to the Squid classes the
// caching kernels read, and the "world" of zeroed raw objects with exactly the members those kernels read set directly.
#pragma once
#include "squid.h"
#include <sstream>
#include <functional>
#include <chrono>
#include <atomic>
#include <iostream>
#include <string>
#include <vector>
#include <list>
#include <map>
#include <unordered_map>
#include <memory>
#include <algorithm>
#include <optional>
#include "debug/Stream.h"
#include "SquidString.h"
#include "sbuf/SBuf.h"
#include "base/RefCount.h"
#include "base/TextException.h"
#define private public
#define protected public
#include "HttpHdrCc.h"
#include "http.h"
#include "HttpRequest.h"
#include "HttpReply.h"
#include "Store.h"
#include "MemObject.h"
#undef private
#undef protected
#include "RefreshPattern.h"
#include "refresh.h"
#include "SquidConfig.h"
#include "StatHist.h"
#include "common.h"
#include <new>

// per-header statistics histograms (StatHist.cc is not linked)
void StatHist::enumInit(unsigned int) {}
void StatHist::count(double) {}

#ifdef VF_BITCODE
// Same two bitcode-only stand-ins as harness/C29_cc.cc (the check of HttpHdrCc::parse itself), needed wherever a Cache-Control
// text is parsed: libstdc++.so's out-of-line bucket-count policy of std::unordered_map (LookupTable<HttpHdrCcType>) -- same
// contract, bucket count unobservable through find() -- and a constant CaseInsensitiveSBufHash (any function mapping equal keys
// to equal values is a correct hash; the real one makes each lookup of a name with a symbolic byte a 64-bit remainder problem).
// The native replay build links the real src/sbuf/Algorithms.cc and libstdc++.
namespace std { namespace __detail {
size_t _Prime_rehash_policy::_M_next_bkt(size_t n) const
{
    static const size_t primes[] = {2, 3, 5, 7, 11, 13, 17, 19, 23, 29, 31, 37, 41, 47, 53, 59, 67, 79, 97, 127, 257, 521, 1031, 2053, 4099};
    size_t r = primes[sizeof(primes) / sizeof(*primes) - 1];
    for (size_t p : primes) if (p >= n) { r = p; break; }
    _M_next_resize = (size_t)((double)r * (double)_M_max_load_factor);
    return r;
}
pair<bool, size_t> _Prime_rehash_policy::_M_need_rehash(size_t nBkt, size_t nElt, size_t nIns) const
{
    if (nElt + nIns > _M_next_resize) {
        const double minBkts = (double)(nElt + nIns) / (double)_M_max_load_factor;
        if (minBkts >= (double)nBkt) {
            const size_t want = (size_t)minBkts + 1;
            return make_pair(true, _M_next_bkt(want > nBkt * 2 ? want : nBkt * 2));
        }
        _M_next_resize = (size_t)((double)nBkt * (double)_M_max_load_factor);
    }
    return make_pair(false, (size_t)0);
}
} }
#include "sbuf/Algorithms.h"
std::size_t CaseInsensitiveSBufHash::operator()(const SBuf &) const noexcept { return 0; }
#endif

// A Cache-Control object as HttpHdrCc::parse() can leave it: mask over the 14 recognised directives (CC_OTHER never sets a
// bit), a numeric value >= 0 exactly for the numeric directives that are present (max-stale without value = MAX_STALE_ANY)
// and -1 for absent ones; no-cache/private may carry a field list.
static inline HttpHdrCc *symbolicCc(const char *name, const bool withLists)
{
    HttpHdrCc *cc = new HttpHdrCc;
    const uint32_t mask = vf_nondet_u32(name);
    // (bitwise operators throughout: no branch, hence no path split, also when compiled at -O0)
    vf_assume((mask != 0) & (mask < (1u << CC_OTHER))); // parse() failing (no recognised directive) = no cache_control object
    cc->mask = (int32_t)mask;
    struct { HttpHdrCcType t; int32_t *v; } num[5] = { {CC_MAX_AGE, &cc->max_age}, {CC_S_MAXAGE, &cc->s_maxage}, {CC_MAX_STALE, &cc->max_stale},
        {CC_MIN_FRESH, &cc->min_fresh}, {CC_STALE_IF_ERROR, &cc->stale_if_error} };
    for (auto &n : num) {
        const int32_t v = (int32_t)vf_nondet_u32(name);
        const bool present = (mask >> n.t) & 1;
        vf_assume((present & (v >= 0)) | (!present & (v == -1)));
        *n.v = v;
    }
    if (withLists) {
        // a field list is kept only for a directive that is present
        if (vf_concretize(vf_bool(name) && ((mask >> CC_NO_CACHE) & 1))) cc->no_cache = "set-cookie";
        if (vf_concretize(vf_bool(name) && ((mask >> CC_PRIVATE) & 1))) cc->private_ = "set-cookie";
    }
    return cc;
}
static inline bool ccHas(const HttpHdrCc *cc, const HttpHdrCcType t) { return cc ? ((cc->mask >> t) & 1) : false; } // cc is a concrete pointer: no path split

// vacuity label chosen by a (possibly symbolic) condition. optnone: clang otherwise merges the two calls into one call whose
// argument is a select between (or a relative lookup table of) string literals, which the engine cannot resolve to a label
__attribute__((optnone, noinline)) static void reachEither(const bool c, const char *yes, const char *no)
{
    if (c) vf_reach(yes);
    else if (no) vf_reach(no);
}

template <class T> static inline T *rawObject() { return static_cast<T *>(xcalloc(1, sizeof(T))); }
// RefCount<T> has exactly one member (the raw pointer); written directly because a never-constructed object has no
// working Lock base; the objects are never destroyed
template <class P, class T> static inline void rawPointer(P &p, T *t) { static_assert(sizeof(P) == sizeof(T *), "RefCount layout"); memcpy(&p, &t, sizeof(t)); }
