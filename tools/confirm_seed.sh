#!/bin/bash
# tools/confirm_seed.sh <ID> <scratch-src> <red-dir> "<demo command>" : independently confirms a seeded change:
# applies patch, builds, runs the repository test suite, runs the demonstration (must fail), reverts, rebuilds, runs it again (must pass).
# Results are written to /verif/seeded/<ID>/confirm.log
ID=$1; SRC=$2; RED=$3; DEMO=$4
OUT=/verif/seeded/$ID; mkdir -p $OUT
cp $RED/patch.diff $OUT/patch.diff; cp $RED/demo.* $OUT/ 2>/dev/null; cp $RED/notes.md $OUT/notes.md 2>/dev/null
{
cd $SRC && git checkout -q . && git apply $OUT/patch.diff && echo "== patch applied: $(git diff --stat | tail -n 1)"
make -j6 >/dev/null 2>&1; echo "== build with change rc=$?"
make -k check -j6 > /tmp/confirm_$ID.check.log 2>&1; echo "== make -k check with change rc=$?  PASS=$(grep -c '^PASS' /tmp/confirm_$ID.check.log) FAIL=$(grep -c '^FAIL' /tmp/confirm_$ID.check.log) ERROR=$(grep -c '^ERROR' /tmp/confirm_$ID.check.log)"
bash -c "$DEMO" > /tmp/confirm_$ID.demo1.log 2>&1; echo "== demonstration with change: exit $? (expected non-zero)"; tail -n 5 /tmp/confirm_$ID.demo1.log
git checkout -q . ; make -j6 >/dev/null 2>&1; echo "== reverted and rebuilt rc=$?"
bash -c "$DEMO" > /tmp/confirm_$ID.demo2.log 2>&1; echo "== demonstration without change: exit $? (expected 0)"; tail -n 3 /tmp/confirm_$ID.demo2.log
} > $OUT/confirm.log 2>&1
