#!/usr/bin/env python3
# tools/collect_known_msgs.py [evidence-dir ...]: prints, per known finding, the distinct (entry, kind, msg) triples that the runs
# recorded in the given evidence directories matched against it (coverage.known_finding_matches). Used by the author to fill the
# "msgs" lists of known_findings.json by hand; never run by a check.
import json, sys, glob, os, collections
dirs = sys.argv[1:] or [os.path.join(os.path.dirname(os.path.abspath(__file__)), "..", "evidence")]
acc = collections.defaultdict(set)
for d in dirs:
    for f in sorted(glob.glob(os.path.join(d, "C*.json"))):
        ev = json.load(open(f))
        for m in ev.get("coverage", {}).get("known_finding_matches", []):
            acc[m["id"]].add((m["entry"], m["kind"], m["msg"]))
print(json.dumps({k: sorted(v) for k, v in sorted(acc.items())}, indent=1))
