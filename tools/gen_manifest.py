#!/usr/bin/env python3
"""Regenerates /verif/MANIFEST.json from harness/specs.py (claimed checks) and harness/na.py (not applicable)."""
import json, os, sys
V = os.path.dirname(os.path.dirname(os.path.abspath(__file__)))
sys.path.insert(0, os.path.join(V, "harness"))
import specs, na
props = [json.loads(l) for l in open(os.path.join(V, "properties.jsonl"))]
# only checks verified on the unchanged tree (listed in harness/ready.txt) are claimed
ready = set(open(os.path.join(V, "harness", "ready.txt")).read().split())
checks = []
napp = []
for p in props:
    pid = p["id"]
    if pid in specs.SPECS and pid in ready:
        s = specs.SPECS[pid]
        kind = s.get("scope", "unit")
        text = s.get("level_text") or (
            "Bounded symbolic execution (sqsym: own LLVM-IR executor + z3) of the real Squid code named in the evidence file: within the stated bounds every feasible path is explored and the property assertions, memory-safety and UB queries are decided by the solver for all values of the symbolic inputs, not sampled; counterexamples are replayed against a native ASan/UBSan build of the same sources before being reported."
            + (" Scope: " + s["scope_note"] if s.get("scope_note") else ""))
        checks.append(dict(
            property_id=pid,
            quick_cmd="./check %s --tier quick" % pid,
            thorough_cmd="./check %s --tier thorough" % pid,
            evidence_file="evidence/%s.json" % pid,
            replay_cmd_template="./check %s --replay {path}" % pid,
            engine="sqsym",
            level_claimed=dict(category="model_checking", text=text, design_ref=s.get("design_ref", "DESIGN.md section 4, " + pid)),
            level_note=s.get("level_note") or ("Bounds: " + "; ".join(e["name"] + ": " + e.get("bounds", "") for e in s["entries"]["quick"]) +
                        ". Trusted: clang-14 IR generation, the sqsym interpreter (validated per run against the native build on sampled paths), z3 4.8.12, environment models (" + ", ".join(s.get("stubs", [])) + "). Outside the claim: " + s.get("outside", "")),
            technique="solver-based bounded symbolic execution of the real code (LLVM IR + z3), native replay of counterexamples",
        ))
    else:
        napp.append(dict(property_id=pid, reason=na.NA.get(pid, "check under construction, not yet verified on the unchanged tree: not claimed; see DESIGN.md section 4 for the plan")))
m = dict(
    version=1,
    setup_cmd="./engine/build.sh",
    hooks=dict(guard="SQUID_VERIF", enable="no source hooks are needed: harnesses reach the code through Squid's own headers, '#include' of .cc files for statics and '#define private public'; nothing in /repo is compiled with the guard",
               baseline_off_cmd="cd /repo && make -k check", source_commits=[], add_only=True),
    engines=[dict(name="sqsym", path="engine/sqsym.cc", serves_properties=[c["property_id"] for c in checks],
                  kind_free_text="bounded symbolic executor over LLVM 14 IR (own code, LLVM C++ API) with z3 as the deciding solver; concrete heap, symbolic data, C++ exceptions, fork-free slice parallelism; native ASan/UBSan replay")],
    checks=checks,
    notes="All checks: ./check <id> --tier quick|thorough. Exit 0 held within bounds; 1 VIOLATION (natively reproduced); 2 inconclusive (never reported as held). Known findings: known_findings.json.",
    not_applicable=napp,
)
json.dump(m, open(os.path.join(V, "MANIFEST.json"), "w"), indent=1)
print("claimed:", len(checks), "not applicable:", len(napp))
