#!/bin/sh
# tools/scratch.sh <dir>: scratch copy of /repo (sources + generated headers + build output) for mutation runs.
# Use with VERIF_REPO=<dir> ./check <ID> ...; remove the copy when done. Must live outside /repo and /verif.
set -e
d="$1"; [ -n "$d" ] || { echo "usage: $0 <dir>"; exit 2; }
case "$d" in /repo*|/verif*) echo "scratch copies must live outside /repo and /verif"; exit 2;; esac
rm -rf "$d"; cp -a /repo "$d"; echo "scratch copy at $d"
# optional second argument "relocate": rewrite the absolute /repo paths recorded by configure so that make/make check run inside the copy
if [ "$2" = "relocate" ]; then
  grep -rlZ --include=Makefile --include=config.status --include=libtool --include='*.la' --include='*.lai' -e '/repo' "$d" 2>/dev/null | xargs -0 -r sed -i "s#/repo#$d#g"
  echo "relocated build files to $d"
fi
