#!/bin/sh
# tools/run_all.sh [tier] [ids...]: runs the listed (default: all ready) checks one after the other, prints one status line each
cd "$(dirname "$0")/.."
tier="${1:-quick}"; shift 2>/dev/null
ids="$*"; [ -n "$ids" ] || ids="$(cat harness/ready.txt)"
for id in $ids; do
  s=$(date +%s); out=$(./check "$id" --tier "$tier" 2>&1); rc=$?; e=$(date +%s)
  echo "$id rc=$rc $((e-s))s $(echo "$out" | grep -E '^(HELD|INCONCLUSIVE|VIOLATION|KNOWN-FINDING)' | cut -c1-80 | tr '\n' '|')"
  [ $rc -ne 0 ] && echo "$out" | tail -n 12
done
