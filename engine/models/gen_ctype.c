#include <ctype.h>
#include <stdio.h>
int main(void) {
    const unsigned short *b = *__ctype_b_loc(); const int *lo = *__ctype_tolower_loc(); const int *up = *__ctype_toupper_loc();
    printf("static const unsigned short vf_ctype_b[384] = {"); for (int i = -128; i < 256; i++) printf("%u,", b[i]); printf("};\n");
    printf("static const int vf_ctype_lo[384] = {"); for (int i = -128; i < 256; i++) printf("%d,", lo[i]); printf("};\n");
    printf("static const int vf_ctype_up[384] = {"); for (int i = -128; i < 256; i++) printf("%d,", up[i]); printf("};\n");
    return 0;
}
