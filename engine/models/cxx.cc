// Out-of-line libstdc++ helpers that live in libstdc++.so (no bitcode): same bodies as libstdc++-v3/src/c++98/list.cc.
#include <list>
namespace std { namespace __detail {
void _List_node_base::_M_hook(_List_node_base *const __position) noexcept
{
    this->_M_next = __position;
    this->_M_prev = __position->_M_prev;
    __position->_M_prev->_M_next = this;
    __position->_M_prev = this;
}
void _List_node_base::_M_unhook() noexcept
{
    _List_node_base *const __next_node = this->_M_next;
    _List_node_base *const __prev_node = this->_M_prev;
    __prev_node->_M_next = __next_node;
    __next_node->_M_prev = __prev_node;
}
} }
