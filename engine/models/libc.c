/* libc models interpreted by sqsym (C locale, glibc semantics). Compiled with -fno-builtin. */
#include <stddef.h>
#include <stdarg.h>
#include <stdint.h>
#include <errno.h>
#include <limits.h>
#include "ctype_tables.h"
void *malloc(size_t); void free(void *);
static const unsigned short *vf_b = vf_ctype_b + 128; static const int *vf_lo = vf_ctype_lo + 128; static const int *vf_up = vf_ctype_up + 128;
const unsigned short **__ctype_b_loc(void) { return &vf_b; }
const int **__ctype_tolower_loc(void) { return &vf_lo; }
const int **__ctype_toupper_loc(void) { return &vf_up; }
#define CT(c, bit) ((c) >= -128 && (c) < 256 ? (vf_b[c] & (bit)) : 0)
/* glibc bit layout (little endian): upper=1<<8 lower=1<<9 alpha=1<<10 digit=1<<11 xdigit=1<<12 space=1<<13 print=1<<14 graph=1<<15 blank=1<<0 cntrl=1<<1 punct=1<<2 alnum=1<<3 */
int isupper(int c) { return CT(c, 1 << 8); } int islower(int c) { return CT(c, 1 << 9); } int isalpha(int c) { return CT(c, 1 << 10); }
int isdigit(int c) { return CT(c, 1 << 11); } int isxdigit(int c) { return CT(c, 1 << 12); } int isspace(int c) { return CT(c, 1 << 13); }
int isprint(int c) { return CT(c, 1 << 14); } int isgraph(int c) { return CT(c, 1 << 15); } int isblank(int c) { return CT(c, 1 << 0); }
int iscntrl(int c) { return CT(c, 1 << 1); } int ispunct(int c) { return CT(c, 1 << 2); } int isalnum(int c) { return CT(c, 1 << 3); }
int isascii(int c) { return (c & ~0x7f) == 0; }
int tolower(int c) { return c >= -128 && c < 256 ? vf_lo[c] : c; }
int toupper(int c) { return c >= -128 && c < 256 ? vf_up[c] : c; }

void *memchr(const void *s, int c, size_t n) { const unsigned char *p = s; for (size_t i = 0; i < n; i++) if (p[i] == (unsigned char)c) return (void *)(p + i); return 0; }
void *memrchr(const void *s, int c, size_t n) { const unsigned char *p = s; while (n--) if (p[n] == (unsigned char)c) return (void *)(p + n); return 0; }
void *rawmemchr(const void *s, int c) { const unsigned char *p = s; while (*p != (unsigned char)c) p++; return (void *)p; }
int memcmp(const void *a, const void *b, size_t n) { const unsigned char *x = a, *y = b; for (size_t i = 0; i < n; i++) if (x[i] != y[i]) return x[i] < y[i] ? -1 : 1; return 0; }
int bcmp(const void *a, const void *b, size_t n) { return memcmp(a, b, n); }
void *memmem(const void *h, size_t hl, const void *n, size_t nl) { if (nl > hl) return 0; for (size_t i = 0; i + nl <= hl; i++) if (!memcmp((const char *)h + i, n, nl)) return (void *)((const char *)h + i); return 0; }
size_t strlen(const char *s) { size_t n = 0; while (s[n]) n++; return n; }
size_t strnlen(const char *s, size_t m) { size_t n = 0; while (n < m && s[n]) n++; return n; }
char *strchr(const char *s, int c) { for (;; s++) { if (*s == (char)c) return (char *)s; if (!*s) return 0; } }
char *strchrnul(const char *s, int c) { for (;; s++) { if (*s == (char)c || !*s) return (char *)s; } }
char *strrchr(const char *s, int c) { const char *r = 0; for (;; s++) { if (*s == (char)c) r = s; if (!*s) break; } return (char *)r; }
int strcmp(const char *a, const char *b) { for (;; a++, b++) { unsigned char x = *a, y = *b; if (x != y) return x < y ? -1 : 1; if (!x) return 0; } }
int strncmp(const char *a, const char *b, size_t n) { for (; n; a++, b++, n--) { unsigned char x = *a, y = *b; if (x != y) return x < y ? -1 : 1; if (!x) return 0; } return 0; }
int strcasecmp(const char *a, const char *b) { for (;; a++, b++) { int x = tolower((unsigned char)*a), y = tolower((unsigned char)*b); if (x != y) return x - y; if (!x) return 0; } }
int strncasecmp(const char *a, const char *b, size_t n) { for (; n; a++, b++, n--) { int x = tolower((unsigned char)*a), y = tolower((unsigned char)*b); if (x != y) return x - y; if (!x) return 0; } return 0; }
int strcoll(const char *a, const char *b) { return strcmp(a, b); }
size_t strspn(const char *s, const char *acc) { size_t n = 0; for (; s[n]; n++) { const char *a = acc; for (; *a; a++) if (*a == s[n]) break; if (!*a) return n; } return n; }
size_t strcspn(const char *s, const char *rej) { size_t n = 0; for (; s[n]; n++) for (const char *r = rej; *r; r++) if (*r == s[n]) return n; return n; }
char *strpbrk(const char *s, const char *acc) { s += strcspn(s, acc); return *s ? (char *)s : 0; }
char *strstr(const char *h, const char *n) { size_t nl = strlen(n); if (!nl) return (char *)h; for (; *h; h++) if (!strncmp(h, n, nl)) return (char *)h; return 0; }
char *strcasestr(const char *h, const char *n) { size_t nl = strlen(n); if (!nl) return (char *)h; for (; *h; h++) if (!strncasecmp(h, n, nl)) return (char *)h; return 0; }
char *strcpy(char *d, const char *s) { char *r = d; while ((*d++ = *s++)) ; return r; }
char *stpcpy(char *d, const char *s) { while ((*d = *s)) { d++; s++; } return d; }
char *strncpy(char *d, const char *s, size_t n) { size_t i = 0; for (; i < n && s[i]; i++) d[i] = s[i]; for (; i < n; i++) d[i] = 0; return d; }
char *strcat(char *d, const char *s) { strcpy(d + strlen(d), s); return d; }
char *strncat(char *d, const char *s, size_t n) { char *p = d + strlen(d); size_t i = 0; for (; i < n && s[i]; i++) p[i] = s[i]; p[i] = 0; return d; }
char *strdup(const char *s) { size_t n = strlen(s) + 1; char *p = malloc(n); for (size_t i = 0; i < n; i++) p[i] = s[i]; return p; }
char *xstrdup(const char *s) { return strdup(s); }  /* compat/xstring.cc: strdup that never returns NULL (allocation never fails here) */
char *strndup(const char *s, size_t m) { size_t n = strnlen(s, m); char *p = malloc(n + 1); for (size_t i = 0; i < n; i++) p[i] = s[i]; p[n] = 0; return p; }
char *strtok_r(char *s, const char *d, char **sv) { if (!s) s = *sv; s += strspn(s, d); if (!*s) { *sv = s; return 0; } char *e = s + strcspn(s, d); if (*e) { *e = 0; *sv = e + 1; } else *sv = e; return s; }
static char *vf_strtok_sv; char *strtok(char *s, const char *d) { return strtok_r(s, d, &vf_strtok_sv); }
char *strsep(char **sp, const char *d) { char *s = *sp; if (!s) return 0; char *e = s + strcspn(s, d); if (*e) { *e = 0; *sp = e + 1; } else *sp = 0; return s; }
char *strerror(int e) { (void)e; return (char *)"error"; }
char *index(const char *s, int c) { return strchr(s, c); }

static int digval(int c) { if (c >= '0' && c <= '9') return c - '0'; if (c >= 'a' && c <= 'z') return c - 'a' + 10; if (c >= 'A' && c <= 'Z') return c - 'A' + 10; return 99; }
static unsigned long long vf_strtoull_core(const char *s, char **end, int base, int *negp, int *ovf, unsigned long long lim) {
    const char *p = s; while (isspace((unsigned char)*p)) p++;
    int neg = 0; if (*p == '+' || *p == '-') { neg = *p == '-'; p++; }
    if ((base == 0 || base == 16) && p[0] == '0' && (p[1] == 'x' || p[1] == 'X') && digval((unsigned char)p[2]) < 16) { p += 2; base = 16; }
    else if (base == 0) base = p[0] == '0' ? 8 : 10;
    unsigned long long acc = 0; int any = 0; *ovf = 0;
    for (;; p++) { int d = digval((unsigned char)*p); if (d >= base) break; any = 1;
        if (*ovf) continue; if (acc > (lim - d) / base) { *ovf = 1; continue; } acc = acc * base + d; }
    if (end) *end = (char *)(any ? p : s);
    *negp = neg; return acc;
}
long long strtoll(const char *s, char **end, int base) { int neg, ovf; unsigned long long v = vf_strtoull_core(s, end, base, &neg, &ovf, ~0ULL);
    if (ovf || (!neg && v > (unsigned long long)LLONG_MAX) || (neg && v > (unsigned long long)LLONG_MAX + 1)) { errno = ERANGE; return neg ? LLONG_MIN : LLONG_MAX; } return neg ? (long long)(0 - v) : (long long)v; }
long strtol(const char *s, char **end, int base) { return strtoll(s, end, base); }
unsigned long long strtoull(const char *s, char **end, int base) { int neg, ovf; unsigned long long v = vf_strtoull_core(s, end, base, &neg, &ovf, ~0ULL); if (ovf) { errno = ERANGE; return ~0ULL; } return neg ? 0 - v : v; }
unsigned long strtoul(const char *s, char **end, int base) { return strtoull(s, end, base); }
long long __isoc23_strtoll(const char *s, char **e, int b) { return strtoll(s, e, b); } long __isoc23_strtol(const char *s, char **e, int b) { return strtol(s, e, b); }
unsigned long long __isoc23_strtoull(const char *s, char **e, int b) { return strtoull(s, e, b); } unsigned long __isoc23_strtoul(const char *s, char **e, int b) { return strtoul(s, e, b); }
intmax_t strtoimax(const char *s, char **e, int b) { return strtoll(s, e, b); } uintmax_t strtoumax(const char *s, char **e, int b) { return strtoull(s, e, b); }
int atoi(const char *s) { return (int)strtol(s, 0, 10); } long atol(const char *s) { return strtol(s, 0, 10); } long long atoll(const char *s) { return strtoll(s, 0, 10); }
double strtod(const char *s, char **end) { const char *p = s; while (isspace((unsigned char)*p)) p++; int neg = 0; if (*p == '+' || *p == '-') { neg = *p == '-'; p++; } double v = 0; int any = 0;
    while (*p >= '0' && *p <= '9') { v = v * 10 + (*p - '0'); p++; any = 1; } if (*p == '.') { p++; double sc = 0.1; while (*p >= '0' && *p <= '9') { v += sc * (*p - '0'); sc /= 10; p++; any = 1; } }
    if (end) *end = (char *)(any ? p : s); return neg ? -v : v; }
double atof(const char *s) { return strtod(s, 0); }
int abs(int x) { return x < 0 ? -x : x; } long labs(long x) { return x < 0 ? -x : x; } long long llabs(long long x) { return x < 0 ? -x : x; }

/* ---- printf family */
struct vf_out { char *buf; size_t cap, n; };
static void outc(struct vf_out *o, char c) { if (o->n + 1 < o->cap) o->buf[o->n] = c; o->n++; }
static void outpad(struct vf_out *o, char c, int k) { while (k-- > 0) outc(o, c); }
static void fmt_num(struct vf_out *o, unsigned long long v, int neg, int base, int upper, int width, int prec, int left, int zero, int plus, int space, int alt) {
    char tmp[72]; int n = 0; const char *dg = upper ? "0123456789ABCDEF" : "0123456789abcdef";
    if (v == 0 && prec != 0) tmp[n++] = '0'; while (v) { tmp[n++] = dg[v % base]; v /= base; }
    int zeros = prec > n ? prec - n : 0; if (alt && base == 8 && zeros == 0 && (n == 0 || tmp[n - 1] != '0')) zeros = 1;
    char sign = neg ? '-' : plus ? '+' : space ? ' ' : 0; int pre = (sign ? 1 : 0) + ((alt && base == 16 && n && !(n == 1 && tmp[0] == '0')) ? 2 : 0);
    int total = pre + zeros + n; int pad = width > total ? width - total : 0;
    if (!left && !(zero && prec < 0)) outpad(o, ' ', pad);
    if (sign) outc(o, sign); if (pre >= 2) { outc(o, '0'); outc(o, upper ? 'X' : 'x'); }
    if (!left && zero && prec < 0) outpad(o, '0', pad);
    outpad(o, '0', zeros); while (n) outc(o, tmp[--n]);
    if (left) outpad(o, ' ', pad);
}
static void fmt_double(struct vf_out *o, double d, int width, int prec, int left, int zero) {
    if (prec < 0) prec = 6; int neg = d < 0; if (neg) d = -d; double r = 0.5; for (int i = 0; i < prec; i++) r /= 10; d += r;
    unsigned long long ip = (unsigned long long)d; double fp = d - (double)ip; char tmp[96]; int n = 0; char itmp[24]; int k = 0;
    if (!ip) itmp[k++] = '0'; while (ip) { itmp[k++] = '0' + ip % 10; ip /= 10; } if (neg) tmp[n++] = '-'; while (k) tmp[n++] = itmp[--k];
    if (prec) { tmp[n++] = '.'; for (int i = 0; i < prec && n < 90; i++) { fp *= 10; int dgt = (int)fp; tmp[n++] = '0' + dgt; fp -= dgt; } }
    int pad = width > n ? width - n : 0; if (!left) outpad(o, zero ? '0' : ' ', pad); for (int i = 0; i < n; i++) outc(o, tmp[i]); if (left) outpad(o, ' ', pad);
}
static int vf_vformat(struct vf_out *o, const char *f, va_list ap) {
    for (; *f; f++) {
        if (*f != '%') { outc(o, *f); continue; }
        f++; int left = 0, zero = 0, plus = 0, space = 0, alt = 0;
        for (;; f++) { if (*f == '-') left = 1; else if (*f == '0') zero = 1; else if (*f == '+') plus = 1; else if (*f == ' ') space = 1; else if (*f == '#') alt = 1; else if (*f == '\'') ; else break; }
        int width = 0, prec = -1;
        if (*f == '*') { width = va_arg(ap, int); if (width < 0) { left = 1; width = -width; } f++; } else while (*f >= '0' && *f <= '9') width = width * 10 + (*f++ - '0');
        if (*f == '.') { f++; prec = 0; if (*f == '*') { prec = va_arg(ap, int); f++; } else while (*f >= '0' && *f <= '9') prec = prec * 10 + (*f++ - '0'); }
        int lng = 0; for (;; f++) { if (*f == 'l') lng++; else if (*f == 'h') lng--; else if (*f == 'z' || *f == 'j' || *f == 't') lng = 2; else if (*f == 'L' || *f == 'q') lng = 2; else break; }
        switch (*f) {
        case 'd': case 'i': { long long v = lng >= 1 ? (lng >= 2 ? va_arg(ap, long long) : va_arg(ap, long)) : va_arg(ap, int); if (lng == -1) v = (short)v; if (lng <= -2) v = (signed char)v;
            fmt_num(o, v < 0 ? 0ULL - (unsigned long long)v : (unsigned long long)v, v < 0, 10, 0, width, prec, left, zero, plus, space, 0); break; }
        case 'u': case 'x': case 'X': case 'o': { unsigned long long v = lng >= 1 ? (lng >= 2 ? va_arg(ap, unsigned long long) : va_arg(ap, unsigned long)) : va_arg(ap, unsigned int); if (lng == -1) v = (unsigned short)v; if (lng <= -2) v = (unsigned char)v;
            fmt_num(o, v, 0, *f == 'u' ? 10 : *f == 'o' ? 8 : 16, *f == 'X', width, prec, left, zero, 0, 0, alt); break; }
        case 'p': { void *p = va_arg(ap, void *); if (!p) { const char *s = "(nil)"; int n = 5; if (!left) outpad(o, ' ', width - n); while (*s) outc(o, *s++); if (left) outpad(o, ' ', width - n); } else fmt_num(o, (unsigned long long)(uintptr_t)p, 0, 16, 0, width, -1, left, 0, 0, 0, 1); break; }
        case 'c': { int c = va_arg(ap, int); if (!left) outpad(o, ' ', width - 1); outc(o, (char)c); if (left) outpad(o, ' ', width - 1); break; }
        case 's': { const char *s = va_arg(ap, const char *); if (!s) s = "(null)"; int n = 0; while (s[n] && (prec < 0 || n < prec)) n++; if (!left) outpad(o, ' ', width - n); for (int i = 0; i < n; i++) outc(o, s[i]); if (left) outpad(o, ' ', width - n); break; }
        case 'f': case 'F': case 'g': case 'G': case 'e': case 'E': { double d = va_arg(ap, double); fmt_double(o, d, width, prec, left, zero); break; }
        case '%': outc(o, '%'); break;
        case 0: f--; break;
        default: outc(o, '%'); outc(o, *f); break;
        }
    }
    if (o->cap) o->buf[o->n < o->cap ? o->n : o->cap - 1] = 0;
    return (int)o->n;
}
int vsnprintf(char *b, size_t n, const char *f, va_list ap) { struct vf_out o = {b, n, 0}; return vf_vformat(&o, f, ap); }
int snprintf(char *b, size_t n, const char *f, ...) { va_list ap; va_start(ap, f); int r = vsnprintf(b, n, f, ap); va_end(ap); return r; }
int vsprintf(char *b, const char *f, va_list ap) { return vsnprintf(b, (size_t)1 << 30, f, ap); }
int sprintf(char *b, const char *f, ...) { va_list ap; va_start(ap, f); int r = vsnprintf(b, (size_t)1 << 30, f, ap); va_end(ap); return r; }
int __snprintf_chk(char *b, size_t n, int fl, size_t sl, const char *f, ...) { (void)fl; (void)sl; va_list ap; va_start(ap, f); int r = vsnprintf(b, n, f, ap); va_end(ap); return r; }
int __vsnprintf_chk(char *b, size_t n, int fl, size_t sl, const char *f, va_list ap) { (void)fl; (void)sl; return vsnprintf(b, n, f, ap); }
int __sprintf_chk(char *b, int fl, size_t sl, const char *f, ...) { (void)fl; (void)sl; va_list ap; va_start(ap, f); int r = vsnprintf(b, (size_t)1 << 30, f, ap); va_end(ap); return r; }
int printf(const char *f, ...) { (void)f; return 0; } int fprintf(void *s, const char *f, ...) { (void)s; (void)f; return 0; } int vfprintf(void *s, const char *f, va_list ap) { (void)s; (void)f; (void)ap; return 0; }
int puts(const char *s) { (void)s; return 0; } int fputs(const char *s, void *f) { (void)s; (void)f; return 0; } int fputc(int c, void *f) { (void)f; return c; } int putchar(int c) { return c; } int fflush(void *f) { (void)f; return 0; }
size_t fwrite(const void *p, size_t s, size_t n, void *f) { (void)p; (void)s; (void)f; return n; }

/* ---- sscanf: %d %u %x %ld %lld %c %s %n %[ ] subset, literal matching, whitespace */
int vsscanf(const char *s, const char *f, va_list ap) {
    const char *p = s; int got = 0;
    for (; *f; f++) {
        if (isspace((unsigned char)*f)) { while (isspace((unsigned char)*p)) p++; continue; }
        if (*f != '%') { if (*p != *f) return got ? got : (*p ? got : -1); p++; continue; }
        f++; int sup = 0; if (*f == '*') { sup = 1; f++; } int width = 0; while (*f >= '0' && *f <= '9') width = width * 10 + (*f++ - '0');
        int lng = 0; for (;; f++) { if (*f == 'l') lng++; else if (*f == 'h') lng--; else if (*f == 'z' || *f == 'j') lng = 2; else break; }
        if (*f == 'n') { if (!sup) *va_arg(ap, int *) = (int)(p - s); continue; }
        if (*f == 'c') { if (!*p) return got ? got : -1; if (!sup) { *va_arg(ap, char *) = *p; got++; } p++; continue; }
        if (*f == '%') { if (*p != '%') return got; p++; continue; }
        if (*f == '[') { f++; int neg = 0; if (*f == '^') { neg = 1; f++; } const char *set = f; if (*f == ']') f++; while (*f && *f != ']') f++; char *out = sup ? 0 : va_arg(ap, char *); int n = 0;
            while (*p && (!width || n < width)) { int in = 0; for (const char *q = set; q < f; q++) if (*q == *p) in = 1; if (in == neg) break; if (out) out[n] = *p; n++; p++; } if (!n) return got; if (out) { out[n] = 0; got++; } continue; }
        while (isspace((unsigned char)*p)) p++;
        if (!*p) return got ? got : -1;
        if (*f == 's') { char *out = sup ? 0 : va_arg(ap, char *); int n = 0; while (*p && !isspace((unsigned char)*p) && (!width || n < width)) { if (out) out[n] = *p; n++; p++; } if (out) { out[n] = 0; got++; } continue; }
        if (*f == 'd' || *f == 'i' || *f == 'u' || *f == 'x' || *f == 'X' || *f == 'o') {
            char tmp[72]; int n = 0; int base = *f == 'd' || *f == 'u' ? 10 : *f == 'o' ? 8 : *f == 'i' ? 0 : 16; const char *q = p; int lim = width ? width : 70; if (lim > 70) lim = 70;
            if ((*q == '-' || *q == '+') && n < lim) tmp[n++] = *q++;
            if (base != 10 && q[0] == '0' && (q[1] == 'x' || q[1] == 'X') && n + 2 <= lim && base != 8) { tmp[n++] = *q++; tmp[n++] = *q++; if (base == 0) base = 16; } else if (base == 0) base = q[0] == '0' ? 8 : 10;
            int nd = 0; while (n < lim && digval((unsigned char)*q) < base) { tmp[n++] = *q++; nd++; } tmp[n] = 0; if (!nd) return got;
            p = q; if (!sup) { if (*f == 'd' || *f == 'i') { long long v = strtoll(tmp, 0, base); if (lng >= 2) *va_arg(ap, long long *) = v; else if (lng == 1) *va_arg(ap, long *) = v; else if (lng == -1) *va_arg(ap, short *) = (short)v; else if (lng <= -2) *va_arg(ap, signed char *) = (signed char)v; else *va_arg(ap, int *) = (int)v; }
                else { unsigned long long v = strtoull(tmp, 0, base); if (lng >= 2) *va_arg(ap, unsigned long long *) = v; else if (lng == 1) *va_arg(ap, unsigned long *) = v; else if (lng == -1) *va_arg(ap, unsigned short *) = (unsigned short)v; else if (lng <= -2) *va_arg(ap, unsigned char *) = (unsigned char)v; else *va_arg(ap, unsigned *) = (unsigned)v; } got++; }
            continue; }
        return got;
    }
    return got;
}
int sscanf(const char *s, const char *f, ...) { va_list ap; va_start(ap, f); int r = vsscanf(s, f, ap); va_end(ap); return r; }
int __isoc99_sscanf(const char *s, const char *f, ...) { va_list ap; va_start(ap, f); int r = vsscanf(s, f, ap); va_end(ap); return r; }
int __isoc23_sscanf(const char *s, const char *f, ...) { va_list ap; va_start(ap, f); int r = vsscanf(s, f, ap); va_end(ap); return r; }

/* ---- misc */
void qsort(void *base, size_t n, size_t sz, int (*cmp)(const void *, const void *)) { char *b = base; for (size_t i = 1; i < n; i++) for (size_t j = i; j > 0 && cmp(b + (j - 1) * sz, b + j * sz) > 0; j--) for (size_t k = 0; k < sz; k++) { char t = b[(j - 1) * sz + k]; b[(j - 1) * sz + k] = b[j * sz + k]; b[j * sz + k] = t; } }
void *bsearch(const void *key, const void *base, size_t n, size_t sz, int (*cmp)(const void *, const void *)) { size_t lo = 0, hi = n; while (lo < hi) { size_t m = lo + (hi - lo) / 2; int c = cmp(key, (const char *)base + m * sz); if (!c) return (void *)((const char *)base + m * sz); if (c < 0) hi = m; else lo = m + 1; } return 0; }
long vf_time_now = 1000000000; long time(long *t) { if (t) *t = vf_time_now; return vf_time_now; }
int rand(void) { return 4; } long random(void) { return 4; } void srand(unsigned s) { (void)s; } void srandom(unsigned s) { (void)s; }
int getpid(void) { return 4242; }
unsigned short htons(unsigned short x) { return (unsigned short)((x >> 8) | (x << 8)); } unsigned short ntohs(unsigned short x) { return htons(x); }
unsigned htonl(unsigned x) { return (x >> 24) | ((x >> 8) & 0xff00) | ((x << 8) & 0xff0000) | (x << 24); } unsigned ntohl(unsigned x) { return htonl(x); }
