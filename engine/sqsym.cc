// sqsym: bounded symbolic executor over LLVM IR (LLVM 14 C++ API + z3).
// Concrete heap & pointers (base + possibly symbolic offset), symbolic data bytes,
// DFS path exploration with fork-based parallelism, C++ exceptions, varargs, threads.
#include "core.h"
#include <sys/wait.h>
#include <unistd.h>
#include <signal.h>
#include <cmath>
#include <atomic>
#include <sys/mman.h>
#include <malloc.h>
#include <fcntl.h>
#include <sys/personality.h>
using namespace llvm;

z3::context Z;
static const DataLayout *DL;
static Module *MOD;

// ---------------------------------------------------------------- options / stats
static struct Opts {
    std::string entry = "harness";
    unsigned long maxSteps = 20000000;   // per path
    double timeout = 600;                // wall seconds for the whole run
    int jobs = 1;
    std::string outPath;                 // result json
    std::string concretePath;            // concrete input file (vectors mode)
    unsigned sampleEvery = 0;            // sample a test vector every N-th path (0=off)
    unsigned maxSamples = 40;
    unsigned queryTimeoutMs = 60000;
    bool verbose = false;
    bool stopOnViolation = false;
    unsigned maxViolations = 8;
    std::vector<std::string> noops;      // extra name prefixes treated as no-ops
    bool checkOverflow = true;
    std::string dumpDir;                 // dump every Nth query as smt2
    unsigned dumpEvery = 0;
    unsigned splitTarget = 0;
    std::vector<std::string> ubFiles;    // restrict nsw/shift UB checks to functions defined in these files
} O;

struct Violation { std::string kind, msg, where, sched; std::vector<std::pair<std::string, std::string>> inputs; std::vector<std::tuple<std::string,unsigned,std::string>> vec; };
struct Sample { std::vector<std::tuple<std::string,unsigned,std::string>> vec; std::vector<std::pair<std::string,std::string>> obs; };
static struct Stats {
    unsigned long paths = 0, queries = 0, instr = 0, forks = 0, cacheHits = 0, throws = 0, assumesCut = 0, modelHits = 0;
    double solverSec = 0;
    std::vector<Violation> viol;
    std::vector<std::string> errors;
    std::set<std::string> reached;
    std::vector<Sample> samples;
    std::set<std::string> externalsHit;
    unsigned long dumped = 0;
} ST;

static std::chrono::steady_clock::time_point T0;
static double wallNow() { return std::chrono::duration<double>(std::chrono::steady_clock::now() - T0).count(); }

// ---------------------------------------------------------------- Val helpers
static inline bool isNumeral(Z3_ast a) { return Z3_get_ast_kind(Z, a) == Z3_NUMERAL_AST; }
Val Val::E(const z3::expr &x) {
    Val r;
    if (x.is_bool()) {
        r.w = 1;
        if (x.is_true()) { r.c = 1; return r; }
        if (x.is_false()) { r.c = 0; return r; }
        r.a = Ast(x); return r;
    }
    r.w = x.get_sort().bv_size();
    if (r.w <= 64 && isNumeral(x)) { uint64_t v = 0; Z3_get_numeral_uint64(Z, x, &v); r.c = v & mask(r.w); return r; }
    if (r.w == 1) { // keep i1 as Bool
        r.a = Ast((x == Z.bv_val(1, 1)).simplify()); 
        z3::expr e = r.a.ex(); if (e.is_true()) { r.a = Ast(); r.c = 1; } else if (e.is_false()) { r.a = Ast(); r.c = 0; }
        return r;
    }
    r.a = Ast(x); return r;
}
z3::expr Val::bv() const {
    if (!a) return Z.bv_val(c, w);
    if (w == 1) return z3::ite(a.ex(), Z.bv_val(1, 1), Z.bv_val(0, 1));
    return a.ex();
}
z3::expr Val::b() const {
    assert(w == 1);
    if (!a) return Z.bool_val(c != 0);
    return a.ex();
}
static Val simp(const Val &v) { if (!v.a) return v; Val r = Val::E(v.a.ex().simplify()); return r; }

// ---------------------------------------------------------------- global tables
static std::map<const GlobalValue *, uint64_t> globalAddr;
static std::map<uint64_t, Function *> funcAt;
static std::map<const Function *, std::unique_ptr<FuncInfo>> funcInfos;
static std::map<std::string, uint64_t> globalByName;
static FuncInfo *getFI(Function *f) {
    auto &p = funcInfos[f];
    if (!p) { p.reset(new FuncInfo); p->f = f; unsigned n = 0; for (auto &a : f->args()) p->slot[&a] = n++; for (auto &bb : *f) for (auto &i : bb) if (!i.getType()->isVoidTy()) p->slot[&i] = n++; p->nslots = n; }
    return p.get();
}
static std::string whereOf(const Instruction *I) {
    std::string s = I->getFunction()->getName().str();
    if (const DebugLoc &dl = I->getDebugLoc()) { if (auto *sc = dyn_cast_or_null<DIScope>(dl.getScope())) s += " (" + sc->getFilename().str() + ":" + std::to_string(dl.getLine()) + ")"; }
    return s;
}
static std::string whereOf(State &s) {
    std::string r; auto &st = s.T().stack; int n = 0;
    for (auto it = st.rbegin(); it != st.rend() && n < 6; ++it, ++n) {
        auto pc = it->pc; const Instruction *I = nullptr;
        if (pc != it->bb->begin()) { auto q = pc; --q; I = &*q; } else if (pc != it->bb->end()) I = &*pc;
        if (n) r += " <- "; r += I ? whereOf(I) : it->fi->f->getName().str();
    }
    return r;
}

// ---------------------------------------------------------------- solver (persistent, synced with path condition)
static z3::solver *G;
static std::vector<Z3_ast> solStack;          // pc asts currently pushed (one push each)
static std::vector<Ast> baseAxioms; static size_t baseAxiomsAdded = 0;
static void syncSolver(State &s) {
    if (baseAxiomsAdded < baseAxioms.size()) {
        if (!solStack.empty()) { G->pop(solStack.size()); solStack.clear(); }
        for (; baseAxiomsAdded < baseAxioms.size(); ++baseAxiomsAdded) G->add(baseAxioms[baseAxiomsAdded].ex());
    }
    size_t k = 0; while (k < solStack.size() && k < s.pc.size() && solStack[k] == s.pc[k].a) ++k;
    if (k < solStack.size()) { G->pop(solStack.size() - k); solStack.resize(k); }
    for (; k < s.pc.size(); ++k) { G->push(); G->add(s.pc[k].ex()); solStack.push_back(s.pc[k].a); }
}
static void dumpQuery(State &s, const z3::expr &extra, const char *verdict = "unknown") {
    if (O.dumpDir.empty() || ST.dumped >= 40) return;
    z3::solver tmp(Z); for (auto &a : baseAxioms) tmp.add(a.ex()); for (auto &p : s.pc) tmp.add(p.ex()); tmp.add(extra);
    std::ofstream f(O.dumpDir + "/q" + std::to_string(getpid()) + "_" + std::to_string(ST.dumped++) + ".smt2");
    f << "; z3-verdict: " << verdict << "\n" << tmp.to_smt2();
}
// check pc && extra. returns sat/unsat; unknown => EngineError (inconclusive)
static bool checkSat(State &s, const z3::expr &extra, std::shared_ptr<z3::model> *mdl = nullptr) {
    auto t0 = std::chrono::steady_clock::now();
    syncSolver(s);
    G->push(); G->add(extra);
    ++ST.queries;
    z3::check_result r = G->check();
    if (r == z3::sat && mdl) *mdl = std::make_shared<z3::model>(G->get_model());
    std::string why; if (r == z3::unknown) why = G->reason_unknown();
    G->pop();
    ST.solverSec += std::chrono::duration<double>(std::chrono::steady_clock::now() - t0).count();
    if (O.dumpEvery && ST.queries % O.dumpEvery == 0) dumpQuery(s, extra, r == z3::sat ? "sat" : r == z3::unsat ? "unsat" : "unknown");
    if (r == z3::unknown) { dumpQuery(s, extra); throw EngineError{"solver returned unknown: " + why}; }
    return r == z3::sat;
}
static void ensureModel(State &s) {
    if (s.model && s.modelGen == baseAxioms.size()) return;   // a model older than a table axiom is not trustworthy
    std::shared_ptr<z3::model> m;
    if (!checkSat(s, Z.bool_val(true), &m)) throw PathEnd{};
    s.model = m; s.modelGen = baseAxioms.size();
}
static bool modelTrue(State &s, const z3::expr &cond) { // cond evaluated in the cached model
    ensureModel(s);
    z3::expr v = s.model->eval(cond, true);
    return v.is_true();
}
static uint64_t modelU64(State &s, const z3::expr &e) {
    ensureModel(s);
    z3::expr v = s.model->eval(e, true); uint64_t r = 0;
    if (!Z3_get_numeral_uint64(Z, v, &r)) throw EngineError{"model value not numeral"};
    return r;
}
// add constraint known to be feasible; keeps model invariant
static void addPC(State &s, const z3::expr &c, std::shared_ptr<z3::model> m = nullptr) {
    if (c.is_true()) return;
    s.pc.push_back(Ast(c));
    if (m) { s.model = m; s.modelGen = baseAxioms.size(); }
    else if (s.model && s.modelGen != baseAxioms.size()) s.model = nullptr;
    else if (s.model) { z3::expr v = s.model->eval(c, true); if (!v.is_true()) s.model = nullptr; }
}

// ---------------------------------------------------------------- work list
static std::vector<std::unique_ptr<State>> work;
static void pushWork(std::unique_ptr<State> s) { ++ST.forks; work.push_back(std::move(s)); }

// ---------------------------------------------------------------- reporting
static std::string numStr(const z3::expr &v) { if (v.is_bool()) return v.is_true() ? "1" : "0"; std::string s; if (v.is_numeral(s)) return s; return v.to_string(); }
static std::vector<std::tuple<std::string,unsigned,std::string>> inputVector(State &s, z3::model &m) {
    std::vector<std::tuple<std::string,unsigned,std::string>> v;
    for (auto &in : s.inputs) v.emplace_back(in.name, in.w, numStr(m.eval(in.e.ex(), true)));
    return v;
}
static void report(State &s, const std::string &kind, const std::string &msg, const z3::expr &cond) {
    std::shared_ptr<z3::model> m;
    if (!checkSat(s, cond, &m)) return; // not actually feasible
    Violation v; v.kind = kind; v.msg = msg; v.where = whereOf(s);
    v.vec = inputVector(s, *m);
    for (size_t i = 0; i < s.sched.size(); i++) v.sched += (i ? "," : "") + std::to_string((int)s.sched[i]);
    // dedupe on kind+msg+where(first frame)
    for (auto &o : ST.viol) if (o.kind == v.kind && o.msg == v.msg && o.where == v.where) return;
    if (O.verbose) { std::cerr << "VIOLATION " << kind << ": " << msg << " at " << v.where << "\n"; for (auto &t : v.vec) std::cerr << "   " << std::get<0>(t) << " = " << std::get<2>(t) << "\n"; }
    if (ST.viol.size() < 64) ST.viol.push_back(v);
}
[[noreturn]] static void fail(State &s, const std::string &kind, const std::string &msg) { report(s, kind, msg, Z.bool_val(true)); throw PathEnd{}; }

// ---------------------------------------------------------------- memory
static ObjP allocObj(State &s, uint64_t size, const std::string &name, bool zero, bool stack = false) {
    auto o = std::make_shared<Obj>();
    uint64_t &na = stack ? ((s.cur > 0 && s.T().nextStack) ? s.T().nextStack : s.nextStack) : s.nextAddr;
    o->base = na; na += ((size + 32 + 31) / 32) * 32;
    o->b.assign(size, zero ? 0 : 0xCD); o->name = name; o->stack = stack;
    s.mem[o->base] = o; return o;
}
static Obj *findObj(State &s, uint64_t addr, bool forWrite) {
    auto it = s.mem.upper_bound(addr);
    bool have = it != s.mem.begin(); if (have) --it;
    if (s.baseMem) { // thread mode: two-level lookup (delta over an immutable shared snapshot)
        auto bt = s.baseMem->upper_bound(addr); bool haveB = bt != s.baseMem->begin(); if (haveB) --bt;
        if (haveB && (!have || bt->first > it->first)) { // the containing object (if any) is in the snapshot and was not touched since
            if (addr - bt->first > bt->second->size()) return nullptr;
            if (!forWrite) return bt->second.get();
            it = s.mem.emplace(bt->first, bt->second).first; have = true; // copy-on-write into the delta below
        }
    }
    if (!have || !it->second) return nullptr;
    if (addr - it->first > it->second->size()) return nullptr; // one-past allowed for lookup
    if (forWrite && s.threads.size() > 1) s.dirty.insert(it->first);
    if (forWrite && it->second.use_count() > 1) {
        auto n = std::make_shared<Obj>(*it->second);
        if (n->s) n->s = std::make_shared<std::vector<Ast>>(*n->s);
        it->second = n;
    } else if (forWrite && it->second->s && it->second->s.use_count() > 1) it->second->s = std::make_shared<std::vector<Ast>>(*it->second->s);
    return it->second.get();
}
static std::string objDesc(Obj *o) { if (!o) return "no object"; return o->name + "[" + std::to_string(o->size()) + "]" + (o->freed ? " (freed)" : ""); }

static bool extractOf(Z3_ast a, Z3_ast &arg, unsigned &hi, unsigned &lo) {
    if (Z3_get_ast_kind(Z, a) != Z3_APP_AST) return false;
    Z3_app app = Z3_to_app(Z, a); Z3_func_decl d = Z3_get_app_decl(Z, app);
    if (Z3_get_decl_kind(Z, d) != Z3_OP_EXTRACT) return false;
    hi = Z3_get_decl_int_parameter(Z, d, 0); lo = Z3_get_decl_int_parameter(Z, d, 1); arg = Z3_get_app_arg(Z, app, 0); return true;
}
static void checkAccess(State &s, Obj *o, uint64_t addr, unsigned n, bool write) {
    if (!o || o->freed || addr - o->base + n > o->size() || (write && o->ro) || o->ext) {
        std::string k = !o ? "access outside any object" : o->freed ? "use after free" : o->ext ? "ENGINE" : (write && o->ro) ? "write to read-only memory" : "out-of-bounds access";
        std::ostringstream m; m << (write ? "store" : "load") << " of " << n << " bytes at offset " << (o ? (int64_t)(addr - o->base) : (int64_t)addr) << " of " << objDesc(o);
        if (o && o->ext) throw EngineError{"access to undefined external global " + o->name};
        fail(s, "memory", k + ": " + m.str());
    }
}
static void storeBytes(State &s, uint64_t addr, const Val &v, unsigned nbytes) {
    Obj *o = findObj(s, addr, true);
    checkAccess(s, o, addr, nbytes, true);
    uint64_t off = addr - o->base;
    if (!v.sym()) {
        for (unsigned i = 0; i < nbytes; i++) { o->b[off + i] = i < 8 ? (uint8_t)(v.c >> (8 * i)) : 0; if (o->s) (*o->s)[off + i] = Ast(); }
        return;
    }
    if (!o->s) o->s = std::make_shared<std::vector<Ast>>(o->size());
    z3::expr e = v.bv();
    if (e.get_sort().bv_size() < nbytes * 8) e = z3::zext(e, nbytes * 8 - e.get_sort().bv_size());
    for (unsigned i = 0; i < nbytes; i++) {
        z3::expr by = nbytes == 1 ? e : e.extract(8 * i + 7, 8 * i).simplify();
        if (isNumeral(by)) { uint64_t x = 0; Z3_get_numeral_uint64(Z, by, &x); o->b[off + i] = (uint8_t)x; (*o->s)[off + i] = Ast(); }
        else (*o->s)[off + i] = Ast(by);
    }
}
static Val loadBytes(State &s, uint64_t addr, unsigned nbytes, unsigned w) {
    Obj *o = findObj(s, addr, false);
    checkAccess(s, o, addr, nbytes, false);
    uint64_t off = addr - o->base; bool anySym = false;
    if (o->s) for (unsigned i = 0; i < nbytes; i++) anySym |= (bool)(*o->s)[off + i];
    if (!anySym && w <= 64) { uint64_t r = 0; for (unsigned i = 0; i < nbytes && i < 8; i++) r |= (uint64_t)o->b[off + i] << (8 * i); return Val::C(w, r); }
    auto byteE = [&](unsigned i) { return (o->s && (*o->s)[off + i]) ? (*o->s)[off + i].ex() : Z.bv_val(o->b[off + i], 8); };
    // pattern: bytes are consecutive extracts of one value
    if (anySym && nbytes > 1) {
        Z3_ast arg0 = nullptr; bool ok = true;
        for (unsigned i = 0; i < nbytes && ok; i++) {
            if (!(o->s && (*o->s)[off + i])) { ok = false; break; }
            Z3_ast arg; unsigned hi, lo; if (!extractOf((*o->s)[off + i].a, arg, hi, lo) || lo != 8 * i || hi != 8 * i + 7) { ok = false; break; }
            if (i == 0) arg0 = arg; else if (arg != arg0) ok = false;
        }
        if (ok) { z3::expr x(Z, arg0); unsigned xw = x.get_sort().bv_size(); if (xw == nbytes * 8) { if (w < xw) x = x.extract(w - 1, 0); return Val::E(x); } }
    }
    z3::expr e = byteE(nbytes - 1);
    for (int i = (int)nbytes - 2; i >= 0; i--) e = z3::concat(e, byteE(i));
    if (w < nbytes * 8) e = e.extract(w - 1, 0);
    if (nbytes > 1) e = e.simplify();
    return Val::E(e);
}

// ---------------------------------------------------------------- symbolic pointers
static void reexecFork(State &s, const z3::expr &cond, std::shared_ptr<z3::model> m) {
    auto o = std::make_unique<State>(s); addPC(*o, cond, m); o->depth++; pushWork(std::move(o));
}
struct Resolved { Obj *o; bool symOff; uint64_t off; Ast offE; };
// Resolve p for an n-byte access. May fork re-executing states for other target objects.
static Resolved resolvePtr(State &s, const Val &p, unsigned n, bool write) {
    Resolved r{nullptr, false, 0, Ast()};
    if (!p.sym()) { r.o = findObj(s, p.c, write); checkAccess(s, r.o, p.c, n, write); r.off = p.c - r.o->base; return r; }
    z3::expr pe = p.a.ex();
    auto pk = s.ptrObj.find(p.a.id());
    uint64_t base;
    if (pk != s.ptrObj.end()) { base = pk->second.second; ++ST.cacheHits; }
    else {
        uint64_t a = modelU64(s, pe);
        Obj *o = findObj(s, a, false);
        if (!o || o->freed || a - o->base + n > o->size()) {
            report(s, "memory", std::string("symbolic pointer ") + (write ? "store" : "load") + " can reach " + (o && o->freed ? "freed " : "") + "memory outside " + objDesc(o), pe == Z.bv_val(a, 64));
            throw PathEnd{};
        }
        if (o->ext) throw EngineError{"access to undefined external global " + o->name};
        base = o->base;
        z3::expr inb = z3::uge(pe, Z.bv_val(base, 64)) && z3::ule(pe, Z.bv_val(base + o->size() - n, 64));
        std::shared_ptr<z3::model> m2;
        if (checkSat(s, !inb, &m2)) {
            uint64_t a2 = 0; Z3_get_numeral_uint64(Z, m2->eval(pe, true), &a2);
            Obj *o2 = findObj(s, a2, false);
            if (o2 && o2 != o && !o2->freed && a2 - o2->base + n <= o2->size()) reexecFork(s, !inb, m2);
            else { report(s, "memory", std::string("out-of-bounds ") + (write ? "write" : "read") + " via symbolic offset into " + objDesc(o), !inb); }
            addPC(s, inb);
        }
        s.ptrObj[p.a.id()] = {p.a, base};
    }
    r.o = findObj(s, base, write);
    r.symOff = true; r.offE = Ast((pe - Z.bv_val(base, 64)).simplify());
    if (isNumeral(r.offE.a)) { uint64_t v; Z3_get_numeral_uint64(Z, r.offE.a, &v); r.symOff = false; r.off = v; }
    return r;
}
static void offsetBounds(State &s, const z3::expr &off, uint64_t maxOff, uint64_t &lo, uint64_t &hi) {
    // binary search feasible min and max of off in [0,maxOff]
    uint64_t l = 0, h = modelU64(s, off);
    while (l < h) { uint64_t mid = l + (h - l) / 2; if (checkSat(s, z3::ule(off, Z.bv_val(mid, 64)))) h = mid; else l = mid + 1; }
    lo = l; l = modelU64(s, off); h = maxOff;
    while (l < h) { uint64_t mid = l + (h - l + 1) / 2; if (checkSat(s, z3::uge(off, Z.bv_val(mid, 64)))) l = mid; else h = mid - 1; }
    hi = l;
}
static std::map<uint64_t, Ast> tableArrays; // content hash -> array const
static Val loadVal(State &s, const Val &p, unsigned nbytes, unsigned w) {
    if (!p.sym()) return loadBytes(s, p.c, nbytes, w);
    Resolved r = resolvePtr(s, p, nbytes, false);
    if (!r.symOff) return loadBytes(s, r.o->base + r.off, nbytes, w);
    Obj *o = r.o; z3::expr offE = r.offE.ex();
    bool allc = !o->s; if (o->s) { allc = true; for (auto &x : *o->s) if (x) { allc = false; break; } }
    if (allc && o->size() <= 4096 && o->size() >= nbytes) {
        // few distinct values (e.g. a 0/1 membership table): value-grouped ite over offset intervals, no array axioms and no fork
        std::map<std::vector<uint8_t>, std::vector<uint64_t>> groups; bool few = true;
        for (uint64_t off = 0; off + nbytes <= o->size(); off++) { groups[std::vector<uint8_t>(o->b.begin() + off, o->b.begin() + off + nbytes)].push_back(off); if (groups.size() > 4) { few = false; break; } }
        if (few) {
            const std::vector<uint8_t> *dflt = nullptr; size_t best = 0;
            for (auto &g : groups) if (g.second.size() > best) { best = g.second.size(); dflt = &g.first; }
            z3::expr res = loadBytes(s, o->base + groups[*dflt][0], nbytes, w).bv();
            for (auto &g : groups) {
                if (&g.first == dflt) continue;
                z3::expr c = Z.bool_val(false);
                for (size_t i = 0; i < g.second.size();) { size_t j = i; while (j + 1 < g.second.size() && g.second[j + 1] == g.second[j] + 1) ++j;
                    c = c || (i == j ? offE == Z.bv_val(g.second[i], 64) : (z3::uge(offE, Z.bv_val(g.second[i], 64)) && z3::ule(offE, Z.bv_val(g.second[j], 64)))); i = j + 1; }
                res = z3::ite(c, loadBytes(s, o->base + g.second[0], nbytes, w).bv(), res);
            }
            return Val::E(res);
        }
    }
    if (allc && o->size() <= 4096) {
        uint64_t h = 1469598103934665603ULL ^ o->size(); for (uint8_t c : o->b) { h ^= c; h *= 1099511628211ULL; }
        auto &arr = tableArrays[h];
        if (!arr) { z3::expr a = Z.constant(("tbl" + std::to_string(h)).c_str(), Z.array_sort(Z.bv_sort(64), Z.bv_sort(8))); arr = Ast(a);
            for (uint64_t i = 0; i < o->size(); i++) baseAxioms.push_back(Ast(z3::select(a, Z.bv_val(i, 64)) == Z.bv_val(o->b[i], 8))); }
        z3::expr e = z3::select(arr.ex(), offE + Z.bv_val(nbytes - 1, 64));
        for (int i = (int)nbytes - 2; i >= 0; i--) e = z3::concat(e, z3::select(arr.ex(), i ? offE + Z.bv_val(i, 64) : offE));
        if (w < nbytes * 8) e = e.extract(w - 1, 0);
        return Val::E(e);
    }
    uint64_t lo = 0, hi = o->size() - nbytes;
    if (hi > 32) offsetBounds(s, offE, hi, lo, hi);
    if (allc && hi == lo) return loadBytes(s, o->base + lo, nbytes, w);
    if (allc && hi - lo > 32) {
        // Large all-concrete table (e.g. an array of 256 objects): case split by distinct loaded value, not by index.
        // Stride: distance to the second-smallest feasible offset, accepted only if the solver proves every feasible offset is lo + k*stride.
        uint64_t l = lo + 1, h = hi;
        while (l < h) { uint64_t mid = l + (h - l) / 2; if (checkSat(s, z3::uge(offE, Z.bv_val(lo + 1, 64)) && z3::ule(offE, Z.bv_val(mid, 64)))) h = mid; else l = mid + 1; }
        uint64_t stride = l - lo;
        while (stride > 1) { // refine with counterexamples until every feasible offset is proven to be lo + k*stride
            std::shared_ptr<z3::model> m2;
            if (!checkSat(s, z3::urem(offE - Z.bv_val(lo, 64), Z.bv_val(stride, 64)) != Z.bv_val(0, 64), &m2)) break;
            uint64_t v = 0; Z3_get_numeral_uint64(Z, m2->eval(offE, true), &v);
            uint64_t a = stride, b = (v - lo) % stride; while (b) { uint64_t t = a % b; a = b; b = t; } stride = a;
        }
        if ((hi - lo) / stride > 4096) throw EngineError{"symbolic-offset load range too wide in " + objDesc(o)};
        std::map<std::vector<uint8_t>, std::vector<uint64_t>> groups;
        for (uint64_t off = lo; off <= hi; off += stride) groups[std::vector<uint8_t>(o->b.begin() + off, o->b.begin() + off + nbytes)].push_back(off);
        if (groups.size() > 600) throw EngineError{"symbolic-offset load has too many distinct values in " + objDesc(o)};
        uint64_t mine = modelU64(s, offE); z3::expr myCond = Z.bool_val(true); bool haveMine = false;
        for (auto &g : groups) {
            z3::expr c = Z.bool_val(false); bool isMine = false;
            for (uint64_t off : g.second) { c = c || offE == Z.bv_val(off, 64); if (off == mine) isMine = true; }
            if (isMine) { myCond = c; haveMine = true; continue; }
            std::shared_ptr<z3::model> m2;
            if (checkSat(s, c, &m2)) reexecFork(s, c, m2);
        }
        if (!haveMine) throw EngineError{"symbolic-offset load: model offset outside the stride lattice in " + objDesc(o)};
        addPC(s, myCond); s.depth++;
        return loadBytes(s, o->base + mine, nbytes, w);
    }
    if (hi - lo > 2048) throw EngineError{"symbolic-offset load range too wide in " + objDesc(o)};
    z3::expr res = loadBytes(s, o->base + lo, nbytes, w).bv();
    for (uint64_t off = lo + 1; off <= hi; off++) res = z3::ite(offE == Z.bv_val(off, 64), loadBytes(s, o->base + off, nbytes, w).bv(), res);
    return Val::E(res);
}
static void storeVal(State &s, const Val &p, const Val &v, unsigned nbytes) {
    if (!p.sym()) { storeBytes(s, p.c, v, nbytes); return; }
    Resolved r = resolvePtr(s, p, nbytes, true);
    if (!r.symOff) { storeBytes(s, r.o->base + r.off, v, nbytes); return; }
    Obj *o = r.o; z3::expr offE = r.offE.ex();
    if (o->ro) fail(s, "memory", "write to read-only memory " + objDesc(o));
    uint64_t lo = 0, hi = o->size() - nbytes; offsetBounds(s, offE, hi, lo, hi);
    if (hi - lo > 256) throw EngineError{"symbolic-offset store range too wide in " + objDesc(o)};
    z3::expr ve = v.bv(); if (ve.get_sort().bv_size() < nbytes * 8) ve = z3::zext(ve, nbytes * 8 - ve.get_sort().bv_size());
    std::vector<z3::expr> nb;
    for (uint64_t j = lo; j <= hi + nbytes - 1; j++) {
        z3::expr cur = loadBytes(s, o->base + j, 1, 8).bv();
        for (unsigned k = 0; k < nbytes; k++) { if (j < lo + k || j - k > hi) continue; cur = z3::ite(offE == Z.bv_val(j - k, 64), nbytes == 1 ? ve : ve.extract(8 * k + 7, 8 * k), cur); }
        nb.push_back(cur);
    }
    for (uint64_t j = lo; j <= hi + nbytes - 1; j++) storeBytes(s, o->base + j, Val::E(nb[j - lo]), 1);
}

// ---------------------------------------------------------------- scalar operations
static unsigned bitsOf(Type *t) {
    if (t->isPointerTy()) return 64; if (t->isIntegerTy()) return t->getIntegerBitWidth(); if (t->isDoubleTy()) return 64; if (t->isFloatTy()) return 32;
    if (t->isX86_FP80Ty()) return 80;
    std::string str; raw_string_ostream os(str); t->print(os); throw EngineError{"unsupported first-class type " + str};
}
static void ubCheck(State &s, const z3::expr &bad, const std::string &what) {
    if (bad.is_false()) return;
    if (checkSat(s, bad)) { report(s, "ub", what, bad); addPC(s, !bad); if (!checkSat(s, Z.bool_val(true))) throw PathEnd{}; }
}
static bool ubOn(const Instruction *I) {
    if (!O.checkOverflow || !I) return false;
    if (O.ubFiles.empty()) return true;
    static std::unordered_map<const Function *, bool> cache; const Function *F = I->getFunction();
    auto it = cache.find(F); if (it != cache.end()) return it->second;
    bool on = false; if (auto *sp = F->getSubprogram()) { std::string fn = sp->getFilename().str(); for (auto &u : O.ubFiles) if (fn.find(u) != std::string::npos) on = true; }
    cache[F] = on; return on;
}
static Val binop(State &s, unsigned opc, const Val &a, const Val &b, const Instruction *I = nullptr) {
    unsigned w = a.w; const bool ubc = ubOn(I);
    bool nsw = false, nuw = false, exact = false;
    if (I) { if (auto *obo = dyn_cast<OverflowingBinaryOperator>(I)) { nsw = obo->hasNoSignedWrap(); nuw = obo->hasNoUnsignedWrap(); } if (auto *pe = dyn_cast<PossiblyExactOperator>(I)) exact = pe->isExact(); (void)exact; }
    bool isDiv = opc == Instruction::UDiv || opc == Instruction::SDiv || opc == Instruction::URem || opc == Instruction::SRem;
    if (!a.sym() && !b.sym() && w <= 64) {
        uint64_t x = a.c, y = b.c, r = 0;
        if (isDiv && y == 0) fail(s, "ub", "division by zero");
        if ((opc == Instruction::SDiv || opc == Instruction::SRem) && w > 1 && b.sext() == -1 && x == (1ULL << (w - 1))) fail(s, "ub", "signed division overflow");
        switch (opc) {
        case Instruction::Add: r = x + y; if (ubc && nsw && w > 1) { __int128 t = (__int128)a.sext() + b.sext(); if (t != (int64_t)Val::C(w, r).sext()) fail(s, "ub", "signed integer overflow in add"); } break;
        case Instruction::Sub: r = x - y; if (ubc && nsw && w > 1) { __int128 t = (__int128)a.sext() - b.sext(); if (t != (int64_t)Val::C(w, r).sext()) fail(s, "ub", "signed integer overflow in sub"); } break;
        case Instruction::Mul: r = x * y; if (ubc && nsw && w > 1) { __int128 t = (__int128)a.sext() * b.sext(); if (t != (int64_t)Val::C(w, r).sext()) fail(s, "ub", "signed integer overflow in mul"); } break;
        case Instruction::And: r = x & y; break; case Instruction::Or: r = x | y; break; case Instruction::Xor: r = x ^ y; break;
        case Instruction::Shl: if (y >= w) { if (ubc) fail(s, "ub", "shift amount out of range"); r = 0; } else r = x << y; break;
        case Instruction::LShr: if (y >= w) { if (ubc) fail(s, "ub", "shift amount out of range"); r = 0; } else r = x >> y; break;
        case Instruction::AShr: if (y >= w) { if (ubc) fail(s, "ub", "shift amount out of range"); y = w - 1; } r = (uint64_t)(a.sext() >> y); break;
        case Instruction::UDiv: r = x / y; break; case Instruction::URem: r = x % y; break;
        case Instruction::SDiv: r = (uint64_t)(a.sext() / b.sext()); break; case Instruction::SRem: r = (uint64_t)(a.sext() % b.sext()); break;
        default: throw EngineError{"binop"};
        }
        return Val::C(w, r);
    }
    if (w == 1) {
        z3::expr x = a.b(), y = b.b();
        switch (opc) {
        case Instruction::And: case Instruction::Mul: return Val::E(x && y);
        case Instruction::Or: return Val::E(x || y);
        case Instruction::Xor: case Instruction::Add: case Instruction::Sub: return Val::E(x != y);
        default: throw EngineError{"i1 binop"};
        }
    }
    // cheap identities
    if (!b.sym() && w <= 64) { if (b.c == 0 && (opc == Instruction::Add || opc == Instruction::Sub || opc == Instruction::Or || opc == Instruction::Xor || opc == Instruction::Shl || opc == Instruction::LShr || opc == Instruction::AShr)) return a;
        if (b.c == 0 && (opc == Instruction::And || opc == Instruction::Mul)) return Val::C(w, 0); if (b.c == 1 && (opc == Instruction::Mul || opc == Instruction::UDiv || opc == Instruction::SDiv)) return a;
        if (opc == Instruction::And && b.c == Val::mask(w)) return a; }
    if (!a.sym() && w <= 64) { if (a.c == 0 && (opc == Instruction::Add || opc == Instruction::Or || opc == Instruction::Xor)) return b; if (a.c == 0 && (opc == Instruction::And || opc == Instruction::Mul)) return Val::C(w, 0); }
    z3::expr x = a.bv(), y = b.bv();
    if (isDiv) ubCheck(s, y == Z.bv_val(0, w), "division by zero");
    if (ubc) {
        if (nsw && opc == Instruction::Add) ubCheck(s, !(z3::bvadd_no_overflow(x, y, true) && z3::bvadd_no_underflow(x, y)), "signed integer overflow in add");
        if (nsw && opc == Instruction::Sub) ubCheck(s, !(z3::bvsub_no_overflow(x, y) && z3::bvsub_no_underflow(x, y, true)), "signed integer overflow in sub");
        if (nsw && opc == Instruction::Mul) ubCheck(s, !(z3::bvmul_no_overflow(x, y, true) && z3::bvmul_no_underflow(x, y)), "signed integer overflow in mul");
        if (opc == Instruction::Shl || opc == Instruction::LShr || opc == Instruction::AShr) ubCheck(s, z3::uge(y, Z.bv_val(w, w)), "shift amount out of range");
        if (nsw && opc == Instruction::Shl) ubCheck(s, z3::ashr(z3::shl(x, y), y) != x, "signed overflow in shl");
        if ((opc == Instruction::SDiv || opc == Instruction::SRem)) ubCheck(s, x == Z.bv_val(1, w).rotate_right(1) && y == Z.bv_val(-1, w), "signed division overflow");
    }
    z3::expr r(Z);
    switch (opc) {
    case Instruction::Add: r = x + y; break; case Instruction::Sub: r = x - y; break; case Instruction::Mul: r = x * y; break;
    case Instruction::And: r = x & y; break; case Instruction::Or: r = x | y; break; case Instruction::Xor: r = x ^ y; break;
    case Instruction::Shl: r = z3::shl(x, y); break; case Instruction::LShr: r = z3::lshr(x, y); break; case Instruction::AShr: r = z3::ashr(x, y); break;
    case Instruction::UDiv: r = z3::udiv(x, y); break; case Instruction::URem: r = z3::urem(x, y); break;
    case Instruction::SDiv: r = x / y; break; case Instruction::SRem: r = z3::srem(x, y); break;
    default: throw EngineError{"binop"};
    }
    if (w > 64 || (!a.sym() && !b.sym())) r = r.simplify();
    return Val::E(r);
}
static Val icmp(CmpInst::Predicate p, const Val &a, const Val &b) {
    if (!a.sym() && !b.sym() && a.w <= 64) {
        uint64_t x = a.c, y = b.c; int64_t sx = a.sext(), sy = b.sext(); bool r;
        switch (p) {
        case CmpInst::ICMP_EQ: r = x == y; break; case CmpInst::ICMP_NE: r = x != y; break;
        case CmpInst::ICMP_UGT: r = x > y; break; case CmpInst::ICMP_UGE: r = x >= y; break; case CmpInst::ICMP_ULT: r = x < y; break; case CmpInst::ICMP_ULE: r = x <= y; break;
        case CmpInst::ICMP_SGT: r = sx > sy; break; case CmpInst::ICMP_SGE: r = sx >= sy; break; case CmpInst::ICMP_SLT: r = sx < sy; break; case CmpInst::ICMP_SLE: r = sx <= sy; break;
        default: throw EngineError{"icmp"};
        }
        return Val::C(1, r);
    }
    if (a.w == 1) { z3::expr x = a.b(), y = b.b(); if (p == CmpInst::ICMP_EQ) return Val::E((x == y).simplify()); if (p == CmpInst::ICMP_NE) return Val::E((x != y).simplify()); }
    z3::expr x = a.bv(), y = b.bv(); z3::expr r(Z);
    switch (p) {
    case CmpInst::ICMP_EQ: r = x == y; break; case CmpInst::ICMP_NE: r = x != y; break;
    case CmpInst::ICMP_UGT: r = z3::ugt(x, y); break; case CmpInst::ICMP_UGE: r = z3::uge(x, y); break; case CmpInst::ICMP_ULT: r = z3::ult(x, y); break; case CmpInst::ICMP_ULE: r = z3::ule(x, y); break;
    case CmpInst::ICMP_SGT: r = x > y; break; case CmpInst::ICMP_SGE: r = x >= y; break; case CmpInst::ICMP_SLT: r = x < y; break; case CmpInst::ICMP_SLE: r = x <= y; break;
    default: throw EngineError{"icmp"};
    }
    return Val::E(r.simplify());
}
static Val zextTo(const Val &a, unsigned w) { if (a.w == w) return a; if (!a.sym() && w <= 64) return Val::C(w, a.c); return Val::E(z3::zext(a.bv(), w - a.w)); }
static Val sextTo(const Val &a, unsigned w) { if (a.w == w) return a; if (!a.sym() && w <= 64) return Val::C(w, (uint64_t)a.sext()); if (a.w == 1) return Val::E(z3::ite(a.b(), Z.bv_val(-1, w), Z.bv_val(0, w))); z3::expr e = z3::sext(a.bv(), w - a.w); if (!a.sym()) e = e.simplify(); return Val::E(e); }
static Val truncTo(const Val &a, unsigned w) { if (a.w == w) return a; if (!a.sym()) return Val::C(w, a.c); z3::expr e = a.bv().extract(w - 1, 0); return Val::E(e.simplify()); }
static double asD(const Val &v) { double d; uint64_t c = v.c; if (v.w == 32) { float f; uint32_t u = (uint32_t)c; memcpy(&f, &u, 4); return f; } memcpy(&d, &c, 8); return d; }
static Val fromD(double d, unsigned w) { if (w == 32) { float f = (float)d; uint32_t u; memcpy(&u, &f, 4); return Val::C(32, u); } uint64_t u; memcpy(&u, &d, 8); return Val::C(64, u); }

// ---------------------------------------------------------------- constants
static Val constVal(const Constant *c);
static Val makeAgg(std::vector<Val> leaves) { Val r; r.agg = std::make_shared<std::vector<Val>>(std::move(leaves)); return r; }
static unsigned leafCount(Type *t) {
    if (auto *st = dyn_cast<StructType>(t)) { unsigned n = 0; for (auto *e : st->elements()) n += leafCount(e); return n; }
    if (auto *at = dyn_cast<ArrayType>(t)) return at->getNumElements() * leafCount(at->getElementType());
    if (auto *vt = dyn_cast<FixedVectorType>(t)) return vt->getNumElements();
    return 1;
}
static void leafTypes(Type *t, uint64_t off, std::vector<std::pair<Type *, uint64_t>> &out) {
    if (auto *st = dyn_cast<StructType>(t)) { auto *sl = DL->getStructLayout(st); for (unsigned i = 0; i < st->getNumElements(); i++) leafTypes(st->getElementType(i), off + sl->getElementOffset(i), out); return; }
    if (auto *at = dyn_cast<ArrayType>(t)) { uint64_t es = DL->getTypeAllocSize(at->getElementType()); for (unsigned i = 0; i < at->getNumElements(); i++) leafTypes(at->getElementType(), off + i * es, out); return; }
    if (auto *vt = dyn_cast<FixedVectorType>(t)) { uint64_t es = DL->getTypeAllocSize(vt->getElementType()); for (unsigned i = 0; i < vt->getNumElements(); i++) leafTypes(vt->getElementType(), off + i * es, out); return; }
    out.push_back({t, off});
}
static bool isAggTy(Type *t) { return t->isStructTy() || t->isArrayTy() || t->isVectorTy(); }
static void flattenConst(const Constant *c, std::vector<Val> &out) {
    Type *t = c->getType();
    if (isAggTy(t)) {
        if (isa<ConstantAggregateZero>(c) || isa<UndefValue>(c)) { std::vector<std::pair<Type *, uint64_t>> lt; leafTypes(t, 0, lt); for (auto &p : lt) out.push_back(Val::C(bitsOf(p.first), 0)); return; }
        if (auto *cds = dyn_cast<ConstantDataSequential>(c)) { for (unsigned i = 0; i < cds->getNumElements(); i++) flattenConst(cds->getElementAsConstant(i), out); return; }
        for (unsigned i = 0; i < c->getNumOperands(); i++) flattenConst(cast<Constant>(c->getOperand(i)), out); return;
    }
    out.push_back(constVal(c));
}
static uint64_t gepOffsetConst(const GEPOperator *g) { APInt off(64, 0); if (!g->accumulateConstantOffset(*DL, off)) throw EngineError{"non-const gep constexpr"}; return off.getZExtValue(); }
static Val constVal(const Constant *c) {
    Type *t = c->getType();
    if (auto *ci = dyn_cast<ConstantInt>(c)) {
        if (ci->getBitWidth() <= 64) return Val::C(ci->getBitWidth(), ci->getZExtValue());
        SmallString<64> str; ci->getValue().toStringUnsigned(str); Val r; r.w = ci->getBitWidth(); r.a = Ast(Z.bv_val(str.c_str(), r.w)); return r; }
    if (auto *cf = dyn_cast<ConstantFP>(c)) { unsigned w = bitsOf(t); if (w > 64) return Val::C(64, 0); return Val::C(w, cf->getValueAPF().bitcastToAPInt().getZExtValue()); }
    if (isa<ConstantPointerNull>(c)) return Val::C(64, 0);
    if (isAggTy(t)) { std::vector<Val> l; flattenConst(c, l); return makeAgg(std::move(l)); }
    if (isa<UndefValue>(c)) { unsigned w = bitsOf(t); if (w > 64) { Val r; r.w = w; r.a = Ast(Z.bv_val(0, w)); return r; } return Val::C(w, 0); }
    if (auto *gv = dyn_cast<GlobalValue>(c)) { auto it = globalAddr.find(gv); if (it == globalAddr.end()) throw EngineError{"unknown global " + gv->getName().str()}; return Val::C(64, it->second); }
    if (auto *ce = dyn_cast<ConstantExpr>(c)) {
        unsigned op = ce->getOpcode();
        if (op == Instruction::GetElementPtr) { Val b = constVal(ce->getOperand(0)); return Val::C(64, b.c + gepOffsetConst(cast<GEPOperator>(ce))); }
        if (op == Instruction::BitCast || op == Instruction::IntToPtr || op == Instruction::AddrSpaceCast) { Val v = constVal(ce->getOperand(0)); return Val::C(64, v.c); }
        if (op == Instruction::PtrToInt || op == Instruction::Trunc || op == Instruction::ZExt) { Val v = constVal(ce->getOperand(0)); return Val::C(bitsOf(t), v.c); }
        if (op == Instruction::SExt) { Val v = constVal(ce->getOperand(0)); return Val::C(bitsOf(t), (uint64_t)v.sext()); }
        if (op == Instruction::Add || op == Instruction::Sub || op == Instruction::Mul || op == Instruction::And || op == Instruction::Or || op == Instruction::Xor) { Val a = constVal(ce->getOperand(0)), b = constVal(ce->getOperand(1)); uint64_t r = op == Instruction::Add ? a.c + b.c : op == Instruction::Sub ? a.c - b.c : op == Instruction::Mul ? a.c * b.c : op == Instruction::And ? (a.c & b.c) : op == Instruction::Or ? (a.c | b.c) : (a.c ^ b.c); return Val::C(a.w, r); }
        if (op == Instruction::ICmp) { Val a = constVal(ce->getOperand(0)), b = constVal(ce->getOperand(1)); return icmp((CmpInst::Predicate)ce->getPredicate(), a, b); }
        if (op == Instruction::Select) { Val cnd = constVal(ce->getOperand(0)); return constVal(ce->getOperand(cnd.c ? 1 : 2)); }
    }
    std::string str; raw_string_ostream os(str); c->print(os); throw EngineError{"unsupported constant " + str};
}
static Val getVal(Frame &f, const Value *v) {
    if (auto *c = dyn_cast<Constant>(v)) return constVal(c);
    auto it = f.fi->slot.find(v);
    if (it == f.fi->slot.end()) { if (isa<MetadataAsValue>(v)) return Val::C(64, 0); throw EngineError{"unbound value"}; }
    return f.regs[it->second];
}
static void setVal(Frame &f, const Value *v, Val x) { auto it = f.fi->slot.find(v); if (it != f.fi->slot.end()) f.regs[it->second] = std::move(x); }
static void initConst(Obj &o, uint64_t off, const Constant *c) {
    if (isa<ConstantAggregateZero>(c) || isa<UndefValue>(c)) return;
    if (auto *cds = dyn_cast<ConstantDataSequential>(c)) { if (cds->isString() || cds->getElementType()->isIntegerTy(8)) { StringRef r = cds->getRawDataValues(); memcpy(&o.b[off], r.data(), r.size()); return; } uint64_t esz = DL->getTypeAllocSize(cds->getElementType()); for (unsigned i = 0; i < cds->getNumElements(); i++) initConst(o, off + i * esz, cds->getElementAsConstant(i)); return; }
    if (auto *ca = dyn_cast<ConstantArray>(c)) { uint64_t esz = DL->getTypeAllocSize(ca->getType()->getElementType()); for (unsigned i = 0; i < ca->getNumOperands(); i++) initConst(o, off + i * esz, ca->getOperand(i)); return; }
    if (auto *cs = dyn_cast<ConstantStruct>(c)) { auto *sl = DL->getStructLayout(cs->getType()); for (unsigned i = 0; i < cs->getNumOperands(); i++) initConst(o, off + sl->getElementOffset(i), cs->getOperand(i)); return; }
    if (auto *cv = dyn_cast<ConstantVector>(c)) { uint64_t esz = DL->getTypeAllocSize(cv->getType()->getElementType()); for (unsigned i = 0; i < cv->getNumOperands(); i++) initConst(o, off + i * esz, cv->getOperand(i)); return; }
    Val v = constVal(c); unsigned nb = (v.w + 7) / 8;
    if (v.sym()) { std::string sv; z3::expr e = v.a.ex(); for (unsigned i = 0; i < nb; i++) { z3::expr by = e.extract(8 * i + 7, 8 * i).simplify(); uint64_t x = 0; Z3_get_numeral_uint64(Z, by, &x); o.b[off + i] = (uint8_t)x; } return; }
    for (unsigned i = 0; i < nb && i < 8; i++) o.b[off + i] = (uint8_t)(v.c >> (8 * i));
}

// ---------------------------------------------------------------- typed memory access helpers
static std::string readCStr(State &s, uint64_t a) { std::string r; if (!a) return "(null)"; for (int n = 0; n < 4096; a++, n++) { Val ch = loadBytes(s, a, 1, 8); if (ch.sym()) { r += '?'; continue; } if (!ch.c) break; r += (char)ch.c; } return r; }
static Val typedLoad(State &s, const Val &p, Type *t) {
    if (!isAggTy(t)) { unsigned w = bitsOf(t); if (w == 80) return Val::C(64, 0); Val v = loadVal(s, p, (w + 7) / 8, w <= 8 ? 8 : w); if (w < 8 || (w % 8)) v = truncTo(v, w); return v; }
    if (p.sym()) throw EngineError{"aggregate load via symbolic pointer"};
    std::vector<std::pair<Type *, uint64_t>> lt; leafTypes(t, 0, lt); std::vector<Val> l;
    for (auto &e : lt) { unsigned w = bitsOf(e.first); Val v = loadBytes(s, p.c + e.second, (w + 7) / 8, w < 8 ? 8 : w); if (w < 8) v = truncTo(v, w); l.push_back(v); }
    return makeAgg(std::move(l));
}
static void typedStore(State &s, const Val &p, const Val &v, Type *t) {
    if (!isAggTy(t)) { unsigned w = bitsOf(t); if (w == 80) return; Val x = v; if (w < 8 || (w % 8)) x = zextTo(v, ((w + 7) / 8) * 8); storeVal(s, p, x, (w + 7) / 8); return; }
    if (p.sym()) throw EngineError{"aggregate store via symbolic pointer"};
    std::vector<std::pair<Type *, uint64_t>> lt; leafTypes(t, 0, lt);
    for (size_t i = 0; i < lt.size(); i++) { unsigned w = bitsOf(lt[i].first); Val x = (*v.agg)[i]; if (w < 8) x = zextTo(x, 8); storeBytes(s, p.c + lt[i].second, x, (w + 7) / 8); }
}
// pick a concrete value for v in this state; other feasible values re-execute the current instruction in forked states
static uint64_t concretize(State &s, const Val &v, const char *what) {
    if (!v.sym()) return v.c;
    z3::expr e = v.bv(); uint64_t a = modelU64(s, e);
    z3::expr eq = e == Z.bv_val(a, v.w); std::shared_ptr<z3::model> m2;
    if (checkSat(s, !eq, &m2)) { if (s.depth > 4000) throw EngineError{std::string("too many values while concretizing ") + what}; reexecFork(s, !eq, m2); }
    addPC(s, eq);
    return a;
}
static void doMemcpy(State &s, Frame &f, const Val &d, const Val &sr, const Val &l, bool move) {
    uint64_t n = concretize(s, l, "memcpy length");
    if (!n) return;
    if (n > (1u << 26)) fail(s, "memory", "memcpy of absurd length " + std::to_string(n));
    if (d.sym() || sr.sym()) {
        Resolved rd = resolvePtr(s, d, 1, true), rs = resolvePtr(s, sr, 1, false);
        if (rd.symOff || rs.symOff) { // byte-wise symbolic
            std::vector<Val> tmp; for (uint64_t i = 0; i < n; i++) tmp.push_back(loadVal(s, binop(s, Instruction::Add, sr, Val::C(64, i)), 1, 8));
            for (uint64_t i = 0; i < n; i++) storeVal(s, binop(s, Instruction::Add, d, Val::C(64, i)), tmp[i], 1);
            return;
        }
    }
    uint64_t da = d.sym() ? modelU64(s, d.bv()) : d.c, sa = sr.sym() ? modelU64(s, sr.bv()) : sr.c;
    Obj *so = findObj(s, sa, false); checkAccess(s, so, sa, n, false);
    Obj *dobj = findObj(s, da, true); checkAccess(s, dobj, da, n, true);
    so = findObj(s, sa, false);
    if (!move && so == dobj && sa != da && ((sa < da && sa + n > da) || (da < sa && da + n > sa))) fail(s, "ub", "memcpy with overlapping ranges");
    uint64_t so_off = sa - so->base, do_off = da - dobj->base;
    std::vector<uint8_t> tb(so->b.begin() + so_off, so->b.begin() + so_off + n);
    std::vector<Ast> ts; bool anys = false; if (so->s) { ts.assign(so->s->begin() + so_off, so->s->begin() + so_off + n); for (auto &x : ts) if (x) { anys = true; break; } }
    memcpy(&dobj->b[do_off], tb.data(), n);
    if (anys && !dobj->s) dobj->s = std::make_shared<std::vector<Ast>>(dobj->size());
    if (dobj->s) for (uint64_t i = 0; i < n; i++) (*dobj->s)[do_off + i] = anys ? ts[i] : Ast();
}
static void doMemset(State &s, const Val &p, const Val &v, const Val &l) {
    uint64_t n = concretize(s, l, "memset length"); if (!n) return;
    if (n > (1u << 26)) fail(s, "memory", "memset of absurd length " + std::to_string(n));
    if (p.sym()) { for (uint64_t i = 0; i < n; i++) storeVal(s, binop(s, Instruction::Add, p, Val::C(64, i)), v, 1); return; }
    Obj *o = findObj(s, p.c, true); checkAccess(s, o, p.c, n, true); uint64_t off = p.c - o->base;
    if (!v.sym()) { memset(&o->b[off], (int)v.c, n); if (o->s) for (uint64_t i = 0; i < n; i++) (*o->s)[off + i] = Ast(); return; }
    for (uint64_t i = 0; i < n; i++) storeBytes(s, p.c + i, v, 1);
}

// ---------------------------------------------------------------- C++ exceptions / RTTI
static std::map<uint64_t, std::string> globalNameAt;
static uint64_t gaddr(const char *n) { auto it = globalByName.find(n); return it == globalByName.end() ? 0 : it->second; }
static const std::map<std::string, std::string> stdBases = {
    {"_ZTISt13runtime_error", "_ZTISt9exception"}, {"_ZTISt11logic_error", "_ZTISt9exception"}, {"_ZTISt12length_error", "_ZTISt11logic_error"},
    {"_ZTISt12out_of_range", "_ZTISt11logic_error"}, {"_ZTISt16invalid_argument", "_ZTISt11logic_error"}, {"_ZTISt12domain_error", "_ZTISt11logic_error"},
    {"_ZTISt14overflow_error", "_ZTISt13runtime_error"}, {"_ZTISt11range_error", "_ZTISt13runtime_error"}, {"_ZTISt15underflow_error", "_ZTISt13runtime_error"},
    {"_ZTISt9bad_alloc", "_ZTISt9exception"}, {"_ZTISt8bad_cast", "_ZTISt9exception"}, {"_ZTISt10bad_typeid", "_ZTISt9exception"}, {"_ZTISt17bad_function_call", "_ZTISt9exception"},
    {"_ZTISt13bad_exception", "_ZTISt9exception"}, {"_ZTISt20bad_array_new_length", "_ZTISt9bad_alloc"}, {"_ZTISt12system_error", "_ZTISt13runtime_error"},
    {"_ZTINSt8ios_base7failureB5cxx11E", "_ZTISt12system_error"}, {"_ZTISt16bad_array_length", "_ZTISt9bad_alloc"}, {"_ZTISt19bad_optional_access", "_ZTISt9exception"}};
static void tiBases(State &s, uint64_t ti, std::vector<std::pair<uint64_t, int64_t>> &out) {
    Obj *o = findObj(s, ti, false); if (!o) return;
    if (o->ext) { auto it = stdBases.find(globalNameAt[ti]); if (it != stdBases.end()) { uint64_t b = gaddr(it->second.c_str()); if (b) out.push_back({b, 0}); else { // base typeinfo not referenced in module: walk names
                std::string n = it->second; while (true) { auto j = stdBases.find(n); if (j == stdBases.end()) break; n = j->second; uint64_t bb = gaddr(n.c_str()); if (bb) { out.push_back({bb, 0}); break; } } } } return; }
    uint64_t vp = loadBytes(s, ti, 8, 64).c - 16;
    if (vp == gaddr("_ZTVN10__cxxabiv120__si_class_type_infoE")) out.push_back({loadBytes(s, ti + 16, 8, 64).c, 0});
    else if (vp == gaddr("_ZTVN10__cxxabiv121__vmi_class_type_infoE")) {
        uint64_t n = loadBytes(s, ti + 20, 4, 32).c;
        for (uint64_t i = 0; i < n; i++) { uint64_t b = loadBytes(s, ti + 24 + 16 * i, 8, 64).c; int64_t of = (int64_t)loadBytes(s, ti + 32 + 16 * i, 8, 64).c; if (of & 1) { out.push_back({b, INT64_MIN}); continue; } out.push_back({b, of >> 8}); }
    }
}
static bool derivesFrom(State &s, uint64_t ti, uint64_t target, int64_t &off, int depth = 0) {
    if (ti == target) { off = 0; return true; }
    if (depth > 16) return false;
    std::vector<std::pair<uint64_t, int64_t>> bs; tiBases(s, ti, bs);
    for (auto &b : bs) { int64_t o2; if (derivesFrom(s, b.first, target, o2, depth + 1)) { if (b.second == INT64_MIN) throw EngineError{"cast or catch through a virtual base in RTTI walk"}; off = b.second + o2; return true; } }
    return false;
}
static std::vector<uint64_t> tiSelectors;
static int64_t selectorFor(uint64_t ti) { for (size_t i = 0; i < tiSelectors.size(); i++) if (tiSelectors[i] == ti) return (int64_t)i + 1; tiSelectors.push_back(ti); return (int64_t)tiSelectors.size(); }
static void enterBlock(State &s, Frame &f, BasicBlock *to);
static void popFrame(State &s) { Thread &t = s.T(); for (uint64_t a : t.stack.back().allocas) { if (s.baseMem && s.baseMem->count(a)) s.mem[a] = nullptr; else s.mem.erase(a); if (!s.dirty.empty()) s.dirty.erase(a); } if (s.cur > 0 && t.nextStack) t.nextStack = t.stack.back().stackMark; t.stack.pop_back(); }
static void unwind(State &s, uint64_t obj, uint64_t ti) {
    Thread &t = s.T(); ++ST.throws;
    while (!t.stack.empty()) {
        Frame &f = t.stack.back();
        if (f.pc != f.bb->end()) if (auto *inv = dyn_cast<InvokeInst>(&*f.pc)) {
            BasicBlock *lpbb = inv->getUnwindDest(); LandingPadInst *lp = lpbb->getLandingPadInst();
            bool enter = false; int64_t sel = 0;
            for (unsigned i = 0; i < lp->getNumClauses() && !enter; i++) {
                if (lp->isCatch(i)) {
                    Constant *c = lp->getClause(i)->stripPointerCasts();
                    if (isa<ConstantPointerNull>(c)) { enter = true; sel = selectorFor(0); break; }
                    uint64_t cti = constVal(c).c; int64_t off;
                    if (derivesFrom(s, ti, cti, off)) { if (off) throw EngineError{"catch with base-class offset"}; enter = true; sel = selectorFor(cti); }
                } else { // filter
                    Constant *c = lp->getClause(i); bool ok = false;
                    if (auto *ca = dyn_cast<ConstantArray>(c)) for (auto &op : ca->operands()) { int64_t off; if (derivesFrom(s, ti, constVal(cast<Constant>(op)->stripPointerCasts()).c, off)) ok = true; }
                    if (!ok) fail(s, "exception", "exception of type " + globalNameAt[ti] + " violates an exception specification (std::terminate)");
                }
            }
            if (!enter && lp->isCleanup()) { enter = true; sel = 0; }
            if (enter) { t.lpExn = obj; t.lpSel = sel; t.lpTi = ti; enterBlock(s, f, lpbb); return; }
        }
        popFrame(s);
    }
    fail(s, "exception", "uncaught exception of type " + globalNameAt[ti] + " escapes the harness entry (std::terminate)");
}
static uint64_t dynamicCast(State &s, uint64_t p, uint64_t dstTi) {
    if (!p) return 0;
    uint64_t vptr = loadBytes(s, p, 8, 64).c;
    int64_t offTop = (int64_t)loadBytes(s, vptr - 16, 8, 64).c; uint64_t mdTi = loadBytes(s, vptr - 8, 8, 64).c;
    uint64_t md = p + offTop; int64_t off;
    if (derivesFrom(s, mdTi, dstTi, off)) return md + off;
    return 0;
}

// ---------------------------------------------------------------- builtins
struct H128 { uint64_t a = 0x9e3779b97f4a7c15ULL, b = 0xc2b2ae3d27d4eb4fULL; void mix(uint64_t x) { a = (a ^ x) * 0x100000001b3ULL; a ^= a >> 29; b = (b + x) * 0xff51afd7ed558ccdULL; b ^= b >> 32; } };
static void hashVal(H128 &h, const Val &v) { h.mix(v.w); if (v.agg) { for (auto &x : *v.agg) hashVal(h, x); return; } if (v.a) h.mix(0x5bd1e995ULL ^ Z3_get_ast_hash(Z, v.a.a)); else h.mix(v.c); }
static void hashObj(H128 &h, uint64_t base, const Obj &o) { h.mix(base); h.mix(o.size()); h.mix(o.freed); uint64_t acc = 0; unsigned k = 0; for (uint8_t c : o.b) { acc = (acc << 8) | c; if (++k == 8) { h.mix(acc); acc = 0; k = 0; } } h.mix(acc); if (o.s) for (size_t i = 0; i < o.s->size(); i++) if ((*o.s)[i]) { h.mix(i); h.mix(Z3_get_ast_hash(Z, (*o.s)[i].a)); } }
static std::vector<Function *> entrySeq;
static std::vector<std::string> concreteInputs; static bool concreteMode = false;
static unsigned preemptBound = 1000;
static std::vector<int> fixedSched; static bool haveFixedSched = false;
enum BI { B_NONE = 0, B_MALLOC, B_CALLOC, B_REALLOC, B_FREE, B_GUARD_ACQ, B_GUARD_REL, B_ATEXIT, B_ERRNO, B_NOOP, B_NOOP_RET0, B_NOOP_RET1, B_NOOP_RETARG0,
    B_ALLOC_EXN, B_FREE_EXN, B_THROW, B_RETHROW, B_BEGIN_CATCH, B_END_CATCH, B_GET_EXN_PTR, B_TYPEID_FOR, B_DYNCAST, B_TERMINATE, B_PUREVIRT,
    B_ABORT, B_EXIT, B_XASSERT, B_ASSERT_FAIL, B_FATAL,
    B_ND8, B_ND16, B_ND32, B_ND64, B_NDBUF, B_ASSUME, B_ASSERT, B_OBSERVE, B_REACH, B_SPAWN, B_JOIN, B_CONCRETIZE, B_YIELD, B_CHOOSE, B_LOADREL,
    B_MEMCPY, B_MEMMOVE, B_MEMSET, B_VASTART, B_VAEND, B_VACOPY, B_INTRIN_SKIP, B_EXPECT, B_OBJSIZE, B_ISCONST,
    B_UMIN, B_UMAX, B_SMIN, B_SMAX, B_ABS, B_CTLZ, B_CTTZ, B_CTPOP, B_BSWAP, B_FSHL, B_FSHR, B_USUBSAT, B_UADDSAT, B_OVF, B_ASSUME_INTRIN, B_TRAP,
    B_FABS, B_FLOOR, B_CEIL, B_SQRT, B_STACKSAVE, B_STACKRESTORE, B_UNCAUGHT, B_GETENV, B_PTRMASK, B_FMULADD, B_POW, B_LOG, B_EXP, B_FMOD, B_ROUND, B_TRUNC_F };
static std::unordered_map<const Function *, int> bcache;
static bool startsWith(const std::string &n, const char *p) { return n.rfind(p, 0) == 0; }
static int classify(const Function *F) {
    std::string n = F->getName().str();
    static const std::map<std::string, int> exact = {
        {"malloc", B_MALLOC}, {"_Znwm", B_MALLOC}, {"_Znam", B_MALLOC}, {"xmalloc", B_MALLOC}, {"_ZnwmRKSt9nothrow_t", B_MALLOC}, {"_ZnamRKSt9nothrow_t", B_MALLOC},
        {"calloc", B_CALLOC}, {"xcalloc", B_CALLOC}, {"realloc", B_REALLOC}, {"xrealloc", B_REALLOC},
        {"free", B_FREE}, {"xfree", B_FREE}, {"free_const", B_FREE}, {"_ZdlPv", B_FREE}, {"_ZdaPv", B_FREE}, {"_ZdlPvm", B_FREE}, {"_ZdaPvm", B_FREE},
        {"__cxa_guard_acquire", B_GUARD_ACQ}, {"__cxa_guard_release", B_GUARD_REL}, {"__cxa_guard_abort", B_NOOP}, {"__cxa_atexit", B_ATEXIT}, {"atexit", B_ATEXIT}, {"__cxa_thread_atexit", B_ATEXIT},
        {"__errno_location", B_ERRNO}, {"__atomic_is_lock_free", B_NOOP_RET1},
        {"__cxa_allocate_exception", B_ALLOC_EXN}, {"__cxa_free_exception", B_FREE_EXN}, {"__cxa_throw", B_THROW}, {"__cxa_rethrow", B_RETHROW},
        {"__cxa_begin_catch", B_BEGIN_CATCH}, {"__cxa_end_catch", B_END_CATCH}, {"__cxa_get_exception_ptr", B_GET_EXN_PTR}, {"llvm.eh.typeid.for", B_TYPEID_FOR},
        {"__dynamic_cast", B_DYNCAST}, {"_ZSt9terminatev", B_TERMINATE}, {"__cxa_pure_virtual", B_PUREVIRT}, {"__cxa_call_unexpected", B_TERMINATE},
        {"_ZSt18uncaught_exceptionv", B_UNCAUGHT}, {"_ZSt19uncaught_exceptionsv", B_UNCAUGHT},
        {"abort", B_ABORT}, {"exit", B_EXIT}, {"_exit", B_EXIT}, {"_Exit", B_EXIT}, {"xassert", B_XASSERT}, {"__assert_fail", B_ASSERT_FAIL},
        {"_Z5fatalPKc", B_FATAL}, {"_Z6fatalfPKcz", B_FATAL}, {"_Z10fatal_dumpPKc", B_FATAL},
        {"vf_nondet_u8", B_ND8}, {"vf_nondet_u16", B_ND16}, {"vf_nondet_u32", B_ND32}, {"vf_nondet_u64", B_ND64}, {"vf_nondet_buf", B_NDBUF},
        {"vf_assume", B_ASSUME}, {"vf_assert", B_ASSERT}, {"vf_observe", B_OBSERVE}, {"vf_reach", B_REACH}, {"vf_spawn", B_SPAWN}, {"vf_join", B_JOIN}, {"vf_concretize", B_CONCRETIZE}, {"vf_yield", B_YIELD}, {"vf_choose", B_CHOOSE},
        {"memcpy", B_MEMCPY}, {"memmove", B_MEMMOVE}, {"memset", B_MEMSET}, {"getenv", B_GETENV}, {"secure_getenv", B_GETENV},
        {"llvm.va_start", B_VASTART}, {"llvm.va_end", B_VAEND}, {"llvm.va_copy", B_VACOPY}, {"llvm.trap", B_TRAP}, {"llvm.stacksave", B_STACKSAVE}, {"llvm.stackrestore", B_STACKRESTORE},
        {"fabs", B_FABS}, {"floor", B_FLOOR}, {"ceil", B_CEIL}, {"sqrt", B_SQRT}, {"pow", B_POW}, {"log", B_LOG}, {"exp", B_EXP}, {"fmod", B_FMOD}, {"round", B_ROUND}, {"trunc", B_TRUNC_F},
        {"_ZN5Debug6FinishEv", B_NOOP}, {"_ZN5Debug5StartEii", B_NOOP_RET0}, {"pthread_mutex_lock", B_NOOP_RET0}, {"pthread_mutex_unlock", B_NOOP_RET0}, {"__cxa_finalize", B_NOOP},
    };
    auto it = exact.find(n); if (it != exact.end()) return it->second;
    if (startsWith(n, "llvm.")) {
        if (startsWith(n, "llvm.lifetime") || startsWith(n, "llvm.dbg") || startsWith(n, "llvm.experimental.noalias") || startsWith(n, "llvm.invariant") || startsWith(n, "llvm.prefetch") || startsWith(n, "llvm.donothing") || startsWith(n, "llvm.var.annotation")) return B_INTRIN_SKIP;
        if (startsWith(n, "llvm.memcpy")) return B_MEMCPY; if (startsWith(n, "llvm.memmove")) return B_MEMMOVE; if (startsWith(n, "llvm.memset")) return B_MEMSET;
        if (startsWith(n, "llvm.load.relative")) return B_LOADREL;
        if (startsWith(n, "llvm.expect")) return B_EXPECT; if (startsWith(n, "llvm.objectsize")) return B_OBJSIZE; if (startsWith(n, "llvm.is.constant")) return B_ISCONST;
        if (startsWith(n, "llvm.umin")) return B_UMIN; if (startsWith(n, "llvm.umax")) return B_UMAX; if (startsWith(n, "llvm.smin")) return B_SMIN; if (startsWith(n, "llvm.smax")) return B_SMAX;
        if (startsWith(n, "llvm.abs")) return B_ABS; if (startsWith(n, "llvm.ctlz")) return B_CTLZ; if (startsWith(n, "llvm.cttz")) return B_CTTZ; if (startsWith(n, "llvm.ctpop")) return B_CTPOP;
        if (startsWith(n, "llvm.bswap")) return B_BSWAP; if (startsWith(n, "llvm.fshl")) return B_FSHL; if (startsWith(n, "llvm.fshr")) return B_FSHR;
        if (startsWith(n, "llvm.usub.sat")) return B_USUBSAT; if (startsWith(n, "llvm.uadd.sat")) return B_UADDSAT;
        if (n.find(".with.overflow") != std::string::npos) return B_OVF; if (startsWith(n, "llvm.assume")) return B_ASSUME_INTRIN;
        if (startsWith(n, "llvm.fabs")) return B_FABS; if (startsWith(n, "llvm.floor")) return B_FLOOR; if (startsWith(n, "llvm.ceil")) return B_CEIL; if (startsWith(n, "llvm.sqrt")) return B_SQRT;
        if (startsWith(n, "llvm.ptrmask")) return B_PTRMASK; if (startsWith(n, "llvm.fmuladd")) return B_FMULADD; if (startsWith(n, "llvm.round")) return B_ROUND; if (startsWith(n, "llvm.trunc")) return B_TRUNC_F;
        if (startsWith(n, "llvm.launder") || startsWith(n, "llvm.strip.invariant") || startsWith(n, "llvm.annotation") || startsWith(n, "llvm.ptr.annotation")) return B_NOOP_RETARG0;
        return B_NONE;
    }
    if (!F->isDeclaration()) return B_NONE;
    static const char *noopPrefixes[] = {"_ZNSo", "_ZNSi", "_ZSt16__ostream_insert", "_ZNSt8ios_base", "_ZNSt9basic_ios", "_ZNKSt9basic_ios", "_ZNSt6locale", "_ZNKSt6locale", "_ZNSt15basic_streambuf", "_ZNKSt15basic_streambuf",
        "_ZNSt7__cxx1119basic_ostringstream", "_ZNKSt7__cxx1119basic_ostringstream", "_ZNSt7__cxx1118basic_stringstream", "_ZNKSt7__cxx1118basic_stringstream", "_ZNSt7__cxx1115basic_stringbuf", "_ZNKSt7__cxx1115basic_stringbuf", "_ZNSt7__cxx1119basic_istringstream",
        "_ZNSt13runtime_error", "_ZNSt11logic_error", "_ZNSt12length_error", "_ZNSt12out_of_range", "_ZNSt16invalid_argument", "_ZNSt14overflow_error", "_ZNSt11range_error", "_ZNSt12domain_error", "_ZNSt9exception", "_ZNSt9bad_alloc", "_ZNSt8bad_cast",
        "_ZStlsI", "_ZStlsIS", "_ZStrsI", "_ZSt4endl", "_ZSt5flush", "_ZSt7setfill", "_ZNSt14basic_ofstream", "_ZNSt13basic_filebuf", "_ZNSt14basic_ifstream", "_ZNSolsE", "_ZSt9use_facet", "_ZSt9has_facet", "_ZNSt5ctype", "_ZNKSt5ctype",
        "_ZSt17current_exceptionv", "_ZNSt15__exception_ptr", "_ZNKSt15__exception_ptr", "_ZSt17rethrow_exception"};
    for (auto *p : noopPrefixes) if (startsWith(n, p)) return B_NOOP_RETARG0;
    for (auto &p : O.noops) if (startsWith(n, p.c_str())) return B_NOOP_RETARG0;
    return B_NONE;
}
static uint64_t errnoAddr = 0;
static Val newInput(State &s, const std::string &nm, unsigned w) {
    if (concreteMode) {
        if (s.concIdx >= concreteInputs.size()) throw EngineError{"concrete input vector exhausted"};
        const std::string &t = concreteInputs[s.concIdx++]; Val v = Val::C(w, strtoull(t.c_str(), nullptr, 0));
        s.inputs.push_back({nm, w, Ast(Z.bv_val(v.c, w))}); return v;
    }
    z3::expr e = Z.bv_const(("in" + std::to_string(s.inputs.size()) + "_" + nm).c_str(), w);
    s.inputs.push_back({nm, w, Ast(e)}); Val r; r.w = w; r.a = Ast(e); return r;
}
static void finishCall(State &s, Frame &f, Instruction *I) { if (auto *inv = dyn_cast<InvokeInst>(I)) enterBlock(s, f, inv->getNormalDest()); else ++f.pc; }
static void schedule(State &s, bool atJoin, bool freeSwitch = false);
// returns true if handled (call completed or control transferred)
static bool handleBuiltin(State &s, Frame &f, CallBase *cb, Function *callee) {
    auto bi = bcache.find(callee); int id;
    if (bi == bcache.end()) { id = classify(callee); bcache[callee] = id; } else id = bi->second;
    if (id == B_NONE) return false;
    auto arg = [&](unsigned i) { return getVal(f, cb->getArgOperand(i)); };
    auto ret = [&](const Val &v) { setVal(f, cb, v); finishCall(s, f, cb); return true; };
    auto done = [&]() { finishCall(s, f, cb); return true; };
    unsigned rw = cb->getType()->isVoidTy() || isAggTy(cb->getType()) ? 0 : bitsOf(cb->getType());
    switch (id) {
    case B_INTRIN_SKIP: case B_NOOP: case B_VAEND: return done();
    case B_NOOP_RET0: return rw ? ret(Val::C(rw, 0)) : done();
    case B_NOOP_RET1: return rw ? ret(Val::C(rw, 1)) : done();
    case B_NOOP_RETARG0: {
        // sret no-ops: zero the result object so later destructors see an empty value
        if (cb->arg_size() && cb->paramHasAttr(0, Attribute::StructRet)) { Val p = arg(0); if (!p.sym()) { Obj *o = findObj(s, p.c, true); if (o) { Type *t = cb->getParamAttr(0, Attribute::StructRet).getValueAsType(); uint64_t n = t ? DL->getTypeAllocSize(t) : 0; if (p.c - o->base + n <= o->size()) doMemset(s, p, Val::C(8, 0), Val::C(64, n)); } } }
        if (!rw) return done();
        if (cb->arg_size() && bitsOf(cb->getArgOperand(0)->getType()) == rw) return ret(arg(0));
        return ret(Val::C(rw, 0)); }
    case B_MALLOC: { uint64_t n = concretize(s, arg(0), "allocation size"); if (n > (1ull << 30)) fail(s, "memory", "allocation of absurd size " + std::to_string(n)); auto o = allocObj(s, n, "heap", false); o->heap = true; return ret(Val::C(64, o->base)); }
    case B_CALLOC: { uint64_t a = concretize(s, arg(0), "allocation size"), b = concretize(s, arg(1), "allocation size"); if (a * b > (1ull << 30)) fail(s, "memory", "allocation of absurd size"); auto o = allocObj(s, a * b, "heap", true); o->heap = true; return ret(Val::C(64, o->base)); }
    case B_REALLOC: { Val p = arg(0); uint64_t n = concretize(s, arg(1), "allocation size"); auto o = allocObj(s, n, "heap", false); o->heap = true;
        if (p.c) { Obj *old = findObj(s, p.c, true); if (!old || old->base != p.c || old->freed || !old->heap) fail(s, "memory", "realloc of invalid pointer"); uint64_t m = std::min<uint64_t>(n, old->size()); doMemcpy(s, f, Val::C(64, o->base), p, Val::C(64, m), false); findObj(s, p.c, true)->freed = true; }
        return ret(Val::C(64, o->base)); }
    case B_FREE: { Val p = arg(0); if (p.sym()) throw EngineError{"free of symbolic pointer"}; if (p.c) { Obj *o = findObj(s, p.c, true); if (!o || o->base != p.c || !o->heap) fail(s, "memory", "free of a pointer that is not a heap block start: " + objDesc(o)); if (o->freed) fail(s, "memory", "double free of " + objDesc(o)); o->freed = true; o->b.assign(o->b.size(), 0xDD); o->s.reset(); } return done(); }
    case B_GUARD_ACQ: { Val g = arg(0); Val b = loadBytes(s, g.c, 1, 8); return ret(Val::C(32, b.c ? 0 : 1)); }
    case B_GUARD_REL: { storeBytes(s, arg(0).c, Val::C(8, 1), 1); return done(); }
    case B_ATEXIT: return ret(Val::C(32, 0));
    case B_ERRNO: return ret(Val::C(64, errnoAddr));
    case B_GETENV: return ret(Val::C(64, 0));
    case B_UNCAUGHT: return ret(Val::C(rw, 0));
    case B_ALLOC_EXN: { uint64_t n = concretize(s, arg(0), "exception size"); auto o = allocObj(s, n, "exception", true); o->heap = true; return ret(Val::C(64, o->base)); }
    case B_FREE_EXN: { Obj *o = findObj(s, arg(0).c, true); if (o) o->freed = true; return done(); }
    case B_THROW: { uint64_t obj = arg(0).c, ti = arg(1).c; s.exnType[obj] = ti; unwind(s, obj, ti); return true; }
    case B_RETHROW: { Thread &t = s.T(); if (t.caught.empty()) fail(s, "exception", "rethrow without active exception (std::terminate)"); ExnRec r = t.caught.back(); t.caught.pop_back(); unwind(s, r.obj, r.ti); return true; }
    case B_BEGIN_CATCH: { uint64_t obj = arg(0).c; auto it = s.exnType.find(obj); s.T().caught.push_back({obj, it == s.exnType.end() ? 0 : it->second}); return ret(Val::C(64, obj)); }
    case B_END_CATCH: { Thread &t = s.T(); if (!t.caught.empty()) t.caught.pop_back(); return done(); }
    case B_GET_EXN_PTR: return ret(arg(0));
    case B_TYPEID_FOR: return ret(Val::C(32, (uint64_t)selectorFor(arg(0).c)));
    case B_DYNCAST: { Val p = arg(0); if (p.sym()) throw EngineError{"dynamic_cast of symbolic pointer"}; return ret(Val::C(64, dynamicCast(s, p.c, arg(2).c))); }
    case B_TERMINATE: fail(s, "abort", "std::terminate reached");
    case B_PUREVIRT: fail(s, "abort", "pure virtual call");
    case B_TRAP: fail(s, "abort", "llvm.trap reached");
    case B_ABORT: fail(s, "abort", "abort() reached");
    case B_EXIT: fail(s, "abort", "exit() reached");
    case B_FATAL: fail(s, "abort", "fatal() reached: " + readCStr(s, arg(0).c));
    case B_XASSERT: fail(s, "abort", "assertion failed: " + readCStr(s, arg(0).c) + " (" + readCStr(s, arg(1).c) + ":" + std::to_string(arg(2).c) + ")");
    case B_ASSERT_FAIL: fail(s, "abort", "assertion failed: " + readCStr(s, arg(0).c));
    case B_ND8: return ret(newInput(s, readCStr(s, arg(0).c), 8));
    case B_ND16: return ret(newInput(s, readCStr(s, arg(0).c), 16));
    case B_ND32: return ret(newInput(s, readCStr(s, arg(0).c), 32));
    case B_ND64: return ret(newInput(s, readCStr(s, arg(0).c), 64));
    case B_NDBUF: { Val p = arg(0); uint64_t n = arg(1).c; std::string nm = readCStr(s, arg(2).c); for (uint64_t i = 0; i < n; i++) storeBytes(s, p.c + i, newInput(s, nm + "[" + std::to_string(i) + "]", 8), 1); return done(); }
    case B_ASSUME: { Val c = arg(0); if (c.sym()) { z3::expr b = c.w == 1 ? c.b() : (c.bv() != Z.bv_val(0, c.w)); if (!modelTrue(s, b)) { std::shared_ptr<z3::model> m; if (!checkSat(s, b, &m)) { ++ST.assumesCut; throw PathEnd{}; } addPC(s, b, m); } else addPC(s, b); } else if (!c.c) { ++ST.assumesCut; throw PathEnd{}; } return done(); }
    case B_ASSERT: { Val c = arg(0); std::string msg = readCStr(s, arg(1).c);
        if (c.sym()) { z3::expr bad = c.w == 1 ? !c.b() : (c.bv() == Z.bv_val(0, c.w)); if (checkSat(s, bad)) { report(s, "assert", msg, bad); addPC(s, !bad); if (!checkSat(s, Z.bool_val(true))) throw PathEnd{}; } }
        else if (!c.c) fail(s, "assert", msg);
        return done(); }
    case B_OBSERVE: { s.obs.push_back({readCStr(s, arg(0).c), arg(1)}); return done(); }
    case B_REACH: { s.reached.insert(readCStr(s, arg(0).c)); return done(); }
    case B_CONCRETIZE: { Val v = arg(0); return ret(Val::C(v.w, concretize(s, v, "vf_concretize"))); }
    case B_SPAWN: { Val fn = arg(0); auto it = funcAt.find(fn.c); if (it == funcAt.end()) throw EngineError{"vf_spawn of non-function"};
        if (s.threads.size() == 1) { H128 h; for (auto &m : s.mem) hashObj(h, m.first, *m.second); s.baseHash[0] = h.a; s.baseHash[1] = h.b;
            s.baseMem = std::make_shared<const std::map<uint64_t, ObjP>>(std::move(s.mem)); s.mem.clear(); }
        Thread t; t.nextStack = 0x7e0000000000ULL + ((uint64_t)s.threads.size() << 32); Frame nf; nf.stackMark = t.nextStack; nf.fi = getFI(it->second); nf.bb = &it->second->getEntryBlock(); nf.pc = nf.bb->begin(); nf.regs.resize(nf.fi->nslots); if (it->second->arg_size()) nf.regs[0] = arg(1); t.stack.push_back(std::move(nf));
        s.threads.push_back(std::move(t)); return ret(Val::C(32, s.threads.size() - 1)); }
    case B_JOIN: { finishCall(s, f, cb); s.joining = true; schedule(s, true); return true; }
    case B_YIELD: return done();
    case B_LOADREL: { // llvm.load.relative(ptr, offset): ptr + sext(load i32 at ptr+offset)
        Val p = arg(0); Val off = arg(1); Val at = binop(s, Instruction::Add, p, off.w == 64 ? off : sextTo(off, 64)); Val rel = loadVal(s, at, 4, 32); return ret(binop(s, Instruction::Add, p, sextTo(rel, 64))); }
    case B_CHOOSE: { // nondeterministic choice among 0..n-1 without creating a symbolic variable (keeps thread-mode states concrete and hashable)
        uint64_t n = arg(0).c; std::string nm = readCStr(s, arg(1).c); if (arg(0).sym() || n == 0 || n > 64) throw EngineError{"vf_choose needs a concrete count in 1..64"};
        if (concreteMode) { if (s.concIdx >= concreteInputs.size()) throw EngineError{"concrete input vector exhausted"}; uint64_t v = strtoull(concreteInputs[s.concIdx++].c_str(), nullptr, 0); s.inputs.push_back({nm, 32, Ast(Z.bv_val((unsigned)(v % n), 32))}); return ret(Val::C(32, v % n)); }
        for (uint64_t k = 1; k < n; k++) { auto o = std::make_unique<State>(s); o->inputs.push_back({nm, 32, Ast(Z.bv_val((unsigned)k, 32))}); o->depth++; Frame &of = o->T().stack.back(); setVal(of, cb, Val::C(32, k)); finishCall(*o, of, cb); pushWork(std::move(o)); }
        s.inputs.push_back({nm, 32, Ast(Z.bv_val(0, 32))}); s.depth++; return ret(Val::C(32, 0)); }
    case B_MEMCPY: case B_MEMMOVE: { doMemcpy(s, f, arg(0), arg(1), arg(2), id == B_MEMMOVE); if (rw) return ret(arg(0)); return done(); }
    case B_MEMSET: { doMemset(s, arg(0), truncTo(arg(1), 8), arg(2)); if (rw) return ret(arg(0)); return done(); }
    case B_VASTART: { Val ap = arg(0); uint64_t n = 0; for (auto &v : f.varargs) n += v.w > 64 ? 16 : 8;
        auto o = allocObj(s, n + 8, "va_area", true); f.allocas.push_back(o->base); uint64_t off = 0;
        for (auto &v : f.varargs) { unsigned nb = v.w > 64 ? 16 : 8; Val x = v.w < 64 ? zextTo(v, 64) : v; storeBytes(s, o->base + off, x, nb); off += nb; }
        storeBytes(s, ap.c, Val::C(32, 48), 4); storeBytes(s, ap.c + 4, Val::C(32, 304), 4); storeBytes(s, ap.c + 8, Val::C(64, o->base), 8); storeBytes(s, ap.c + 16, Val::C(64, 0), 8); return done(); }
    case B_VACOPY: { doMemcpy(s, f, arg(0), arg(1), Val::C(64, 24), false); return done(); }
    case B_EXPECT: return ret(arg(0));
    case B_PTRMASK: return ret(binop(s, Instruction::And, arg(0), arg(1)));
    case B_OBJSIZE: return ret(Val::C(rw, cast<ConstantInt>(cb->getArgOperand(1))->isZero() ? ~0ULL : 0));
    case B_ISCONST: return ret(Val::C(1, 0));
    case B_ASSUME_INTRIN: return done();
    case B_STACKSAVE: return ret(Val::C(64, 0));
    case B_STACKRESTORE: return done();
    case B_UMIN: case B_UMAX: case B_SMIN: case B_SMAX: { Val a = arg(0), b = arg(1); CmpInst::Predicate p = id == B_UMIN ? CmpInst::ICMP_ULT : id == B_UMAX ? CmpInst::ICMP_UGT : id == B_SMIN ? CmpInst::ICMP_SLT : CmpInst::ICMP_SGT;
        Val c = icmp(p, a, b); if (!c.sym()) return ret(c.c ? a : b); return ret(Val::E(z3::ite(c.b(), a.bv(), b.bv()))); }
    case B_ABS: { Val a = arg(0); if (!a.sym()) return ret(Val::C(a.w, (uint64_t)(a.sext() < 0 ? -a.sext() : a.sext()))); z3::expr x = a.bv(); return ret(Val::E(z3::ite(x < 0, -x, x))); }
    case B_CTPOP: { Val a = arg(0); if (!a.sym()) return ret(Val::C(a.w, __builtin_popcountll(a.c))); z3::expr x = a.bv(), r = Z.bv_val(0, a.w); for (unsigned i = 0; i < a.w; i++) r = r + z3::zext(x.extract(i, i), a.w - 1); return ret(Val::E(r)); }
    case B_CTLZ: case B_CTTZ: { Val a = arg(0); unsigned w = a.w;
        if (!a.sym()) { unsigned n = 0; if (id == B_CTLZ) { while (n < w && !((a.c >> (w - 1 - n)) & 1)) n++; } else { while (n < w && !((a.c >> n) & 1)) n++; } return ret(Val::C(w, n)); }
        z3::expr x = a.bv(), r = Z.bv_val(w, w);
        if (id == B_CTLZ) { for (unsigned i = 0; i < w; i++) r = z3::ite(x.extract(i, i) == Z.bv_val(1, 1), Z.bv_val(w - 1 - i, w), r); }
        else { for (int i = w - 1; i >= 0; i--) r = z3::ite(x.extract(i, i) == Z.bv_val(1, 1), Z.bv_val(i, w), r); }
        return ret(Val::E(r)); }
    case B_BSWAP: { Val a = arg(0); unsigned nb = a.w / 8; if (!a.sym()) { uint64_t r = 0; for (unsigned i = 0; i < nb; i++) r |= ((a.c >> (8 * i)) & 0xff) << (8 * (nb - 1 - i)); return ret(Val::C(a.w, r)); }
        z3::expr x = a.bv(), r = x.extract(7, 0); for (unsigned i = 1; i < nb; i++) r = z3::concat(r, x.extract(8 * i + 7, 8 * i)); return ret(Val::E(r)); }
    case B_FSHL: case B_FSHR: { Val a = arg(0), b = arg(1), c = arg(2); unsigned w = a.w; Val amt = binop(s, Instruction::URem, c, Val::C(w, w));
        z3::expr cat = z3::concat(a.bv(), b.bv()); z3::expr sh = z3::zext(amt.bv(), w);
        z3::expr r = id == B_FSHL ? z3::shl(cat, sh).extract(2 * w - 1, w) : z3::lshr(cat, sh).extract(w - 1, 0); return ret(Val::E(r.simplify())); }
    case B_USUBSAT: { Val a = arg(0), b = arg(1); if (!a.sym() && !b.sym()) return ret(Val::C(a.w, a.c > b.c ? a.c - b.c : 0)); return ret(Val::E(z3::ite(z3::ugt(a.bv(), b.bv()), a.bv() - b.bv(), Z.bv_val(0, a.w)))); }
    case B_UADDSAT: { Val a = arg(0), b = arg(1); z3::expr x = a.bv(), y = b.bv(); return ret(Val::E(z3::ite(z3::ult(x + y, x), Z.bv_val(-1, a.w), x + y).simplify())); }
    case B_OVF: { std::string n = callee->getName().str(); Val a = arg(0), b = arg(1); unsigned w = a.w; bool sg = n[5] == 's'; unsigned op = n.find("add") != std::string::npos ? Instruction::Add : n.find("sub") != std::string::npos ? Instruction::Sub : Instruction::Mul;
        bool save = O.checkOverflow; O.checkOverflow = false; Val r = binop(s, op, a, b); O.checkOverflow = save; Val ov;
        if (!a.sym() && !b.sym() && w <= 64) { __int128 x = sg ? (__int128)a.sext() : (__int128)a.c, y = sg ? (__int128)b.sext() : (__int128)b.c; __int128 t = op == Instruction::Add ? x + y : op == Instruction::Sub ? x - y : x * y; __int128 back = sg ? (__int128)r.sext() : (__int128)r.c; ov = Val::C(1, t != back); }
        else { z3::expr x = a.bv(), y = b.bv(); z3::expr ok = op == Instruction::Add ? (z3::bvadd_no_overflow(x, y, sg) && (sg ? z3::bvadd_no_underflow(x, y) : Z.bool_val(true))) : op == Instruction::Sub ? ((sg ? z3::bvsub_no_overflow(x, y) : Z.bool_val(true)) && z3::bvsub_no_underflow(x, y, sg)) : (z3::bvmul_no_overflow(x, y, sg) && (sg ? z3::bvmul_no_underflow(x, y) : Z.bool_val(true))); ov = Val::E((!ok).simplify()); }
        setVal(f, cb, makeAgg({r, ov})); finishCall(s, f, cb); return true; }
    case B_FABS: case B_FLOOR: case B_CEIL: case B_SQRT: case B_LOG: case B_EXP: case B_ROUND: case B_TRUNC_F: { Val a = arg(0); if (a.sym()) throw EngineError{"symbolic floating point"}; double d = asD(a); d = id == B_FABS ? fabs(d) : id == B_FLOOR ? floor(d) : id == B_CEIL ? ceil(d) : id == B_SQRT ? sqrt(d) : id == B_LOG ? log(d) : id == B_EXP ? exp(d) : id == B_ROUND ? round(d) : trunc(d); return ret(fromD(d, a.w)); }
    case B_POW: case B_FMOD: { Val a = arg(0), b = arg(1); if (a.sym() || b.sym()) throw EngineError{"symbolic floating point"}; return ret(fromD(id == B_POW ? pow(asD(a), asD(b)) : fmod(asD(a), asD(b)), a.w)); }
    case B_FMULADD: { Val a = arg(0), b = arg(1), c = arg(2); if (a.sym() || b.sym() || c.sym()) throw EngineError{"symbolic floating point"}; return ret(fromD(asD(a) * asD(b) + asD(c), a.w)); }
    }
    return false;
}

// ---------------------------------------------------------------- interpreter
static void enterBlock(State &s, Frame &f, BasicBlock *to) {
    if (isa<PHINode>(to->front())) {
        std::vector<std::pair<const Value *, Val>> nv;
        for (auto &I : *to) { auto *phi = dyn_cast<PHINode>(&I); if (!phi) break; nv.push_back({phi, getVal(f, phi->getIncomingValueForBlock(f.bb))}); }
        for (auto &p : nv) setVal(f, p.first, std::move(p.second));
    }
    f.prev = f.bb; f.bb = to; f.pc = to->getFirstNonPHI()->getIterator();
}
static bool isAtomicInst(const Instruction *I) {
    if (auto *l = dyn_cast<LoadInst>(I)) return l->isAtomic(); if (auto *st = dyn_cast<StoreInst>(I)) return st->isAtomic();
    if (auto *cb = dyn_cast<CallBase>(I)) if (auto *fn = cb->getCalledFunction()) if (fn->getName() == "vf_yield") return true;
    return isa<AtomicRMWInst>(I) || isa<AtomicCmpXchgInst>(I) || isa<FenceInst>(I);
}
static std::set<std::pair<uint64_t, uint64_t>> visitedStates; static bool stateHashing = true;
static unsigned long prunedStates = 0;
// true if an equivalent state (same thread stacks, registers, memory written since the first spawn, path condition) was already expanded at a scheduling point
static bool seenBefore(State &s) {
    H128 h; h.mix(s.baseHash[0]); h.mix(s.baseHash[1]); h.mix(s.nextAddr);
    if (preemptBound < 1000) { h.mix(s.cur); h.mix(s.preempts); }
    for (auto &c : s.pc) h.mix(Z3_get_ast_hash(Z, c.a));
    for (auto &t : s.threads) { h.mix(0x7468ULL); h.mix(t.done); h.mix(t.stack.size()); h.mix(t.caught.size());
        for (auto &f : t.stack) { h.mix((uint64_t)(uintptr_t)f.fi->f); h.mix((uint64_t)(uintptr_t)f.bb); h.mix((uint64_t)(uintptr_t)f.prev); h.mix(f.pc == f.bb->end() ? 0 : (uint64_t)(uintptr_t)&*f.pc); for (auto &r : f.regs) hashVal(h, r); for (auto &r : f.varargs) hashVal(h, r); } }
    for (uint64_t b : s.dirty) { auto it = s.mem.find(b); if (it == s.mem.end() || !it->second) h.mix(b ^ 0xdeadULL); else hashObj(h, b, *it->second); }
    return !visitedStates.insert({h.a, h.b}).second;
}
static void schedule(State &s, bool atJoin, bool freeSwitch) {
    if (stateHashing && !haveFixedSched && seenBefore(s)) { ++prunedStates; throw PathEnd{}; }
    std::vector<int> run; for (size_t i = 1; i < s.threads.size(); i++) if (!s.threads[i].done && !s.threads[i].stack.empty()) run.push_back((int)i);
    if (run.empty()) { s.cur = 0; s.joining = false; s.skipThread = -1; return; }
    bool curRunnable = s.cur >= 1 && !s.threads[s.cur].done && !s.threads[s.cur].stack.empty();
    std::vector<int> alts;
    if (curRunnable) { alts.push_back(s.cur); if (s.preempts < preemptBound || freeSwitch) for (int t : run) if (t != s.cur) alts.push_back(t); }
    else alts = run;
    if (haveFixedSched) { // replay of a recorded schedule: no forking
        size_t k = s.sched.size(); if (k >= fixedSched.size()) throw EngineError{"recorded schedule exhausted"};
        int t = fixedSched[k]; bool okT = false; for (int a : run) if (a == t) okT = true; if (!okT) throw EngineError{"recorded schedule names a thread that is not runnable"};
        alts.assign(1, t);
    }
    auto setSkip = [](State &st, int t) { Frame &fr = st.threads[t].stack.back(); st.skipThread = -1; st.skipAt = nullptr; if (fr.pc != fr.bb->end() && isAtomicInst(&*fr.pc)) { st.skipThread = t; st.skipAt = &*fr.pc; } };
    for (size_t k = 1; k < alts.size(); k++) { auto o = std::make_unique<State>(s); if (curRunnable && !freeSwitch) o->preempts++; o->cur = alts[k]; o->sched.push_back((uint8_t)alts[k]); setSkip(*o, alts[k]); o->depth++; pushWork(std::move(o)); }
    s.cur = alts[0]; s.sched.push_back((uint8_t)alts[0]); setSkip(s, alts[0]);
}
static void callFunction(State &s, Frame &f, CallBase *cb, Function *callee) {
    if (callee->isDeclaration()) { ST.externalsHit.insert(callee->getName().str()); throw EngineError{"unmodelled external: " + callee->getName().str()}; }
    Frame nf; nf.fi = getFI(callee); nf.bb = &callee->getEntryBlock(); nf.pc = nf.bb->begin(); nf.callsite = cb; nf.regs.resize(nf.fi->nslots); nf.stackMark = s.T().nextStack;
    unsigned np = callee->arg_size(), i = 0;
    if (cb->arg_size() < np) throw EngineError{"call with too few arguments to " + callee->getName().str()};
    for (; i < np; i++) {
        Val v = getVal(f, cb->getArgOperand(i));
        if (cb->isByValArgument(i)) { // copy the pointee
            Type *t = cb->getParamByValType(i); uint64_t n = DL->getTypeAllocSize(t); auto o = allocObj(s, n, "byval", false, true); nf.allocas.push_back(o->base);
            doMemcpy(s, f, Val::C(64, o->base), v, Val::C(64, n), false); v = Val::C(64, o->base); }
        nf.regs[i] = std::move(v);
    }
    if (callee->isVarArg()) for (; i < cb->arg_size(); i++) nf.varargs.push_back(getVal(f, cb->getArgOperand(i)));
    if (s.T().stack.size() > 400) throw EngineError{"call stack too deep"};
    s.T().stack.push_back(std::move(nf));
}
static void branchTo(State &s, Frame &f, BranchInst *bi, const Val &c) {
    if (!c.sym()) { enterBlock(s, f, bi->getSuccessor(c.c ? 0 : 1)); return; }
    z3::expr b = c.b(); bool neg = false;
    while (b.is_not()) { b = b.arg(0); neg = !neg; }
    auto go = [&](State &st, bool bTrue) { Frame &fr = st.T().stack.back(); enterBlock(st, fr, bi->getSuccessor((bTrue != neg) ? 0 : 1)); };
    auto kn = s.known.find(b.id());
    if (kn != s.known.end()) { ++ST.cacheHits; go(s, kn->second.second); return; }
    bool mv = modelTrue(s, b); ++ST.modelHits;
    std::shared_ptr<z3::model> m2;
    bool other = checkSat(s, mv ? !b : b, &m2);
    if (other) {
        auto o = std::make_unique<State>(s); addPC(*o, mv ? !b : b, m2); o->known[b.id()] = {Ast(b), !mv}; o->depth++; go(*o, !mv); pushWork(std::move(o));
        addPC(s, mv ? b : !b); s.depth++;
    }
    s.known[b.id()] = {Ast(b), mv}; go(s, mv);
}
struct Timeout {};
static void pathDone(State &s);
static void runState(State &s) {
    while (true) {
        Thread &t = s.T();
        if (t.stack.empty()) {
            if (s.cur == 0) {
                if (s.entryIdx < entrySeq.size()) { Function *fn = entrySeq[s.entryIdx++]; Frame nf; nf.fi = getFI(fn); nf.bb = &fn->getEntryBlock(); nf.pc = nf.bb->begin(); nf.regs.resize(nf.fi->nslots); t.stack.push_back(std::move(nf)); continue; }
                pathDone(s); return;
            }
            t.done = true; schedule(s, true); continue;
        }
        Frame &f = t.stack.back();
        Instruction &I = *f.pc; ++ST.instr;
        if (++s.steps > O.maxSteps) throw EngineError{"per-path instruction budget exhausted (possible non-termination)"};
        if ((ST.instr & 0x3fff) == 0 && wallNow() > O.timeout) throw Timeout{};
        if (s.joining && s.cur >= 1 && isAtomicInst(&I)) {
            if (s.skipThread == s.cur && s.skipAt == &I) { s.skipThread = -1; s.skipAt = nullptr; }
            else { bool fr = false; if (auto *ycb = dyn_cast<CallBase>(&I)) if (auto *yf = ycb->getCalledFunction()) fr = yf->getName() == "vf_yield"; schedule(s, false, fr); continue; }
        }
        switch (I.getOpcode()) {
        case Instruction::Br: { auto *bi = cast<BranchInst>(&I); if (bi->isUnconditional()) enterBlock(s, f, bi->getSuccessor(0)); else branchTo(s, f, bi, getVal(f, bi->getCondition())); continue; }
        case Instruction::Switch: {
            auto *sw = cast<SwitchInst>(&I); Val c = getVal(f, sw->getCondition());
            if (!c.sym()) { auto *ci = ConstantInt::get(cast<IntegerType>(sw->getCondition()->getType()), c.c); enterBlock(s, f, sw->findCaseValue(ci)->getCaseSuccessor()); continue; }
            // one alternative per distinct successor block (not per value)
            std::vector<std::pair<BasicBlock *, z3::expr>> alts; z3::expr ce = c.bv(); z3::expr none = Z.bool_val(true);
            for (auto &cs : sw->cases()) {
                z3::expr eq = ce == Z.bv_val(cs.getCaseValue()->getZExtValue(), c.w); none = none && !eq; BasicBlock *to = cs.getCaseSuccessor();
                bool found = false; for (auto &a : alts) if (a.first == to) { a.second = a.second || eq; found = true; break; }
                if (!found) alts.push_back({to, eq});
            }
            { BasicBlock *to = sw->getDefaultDest(); bool found = false; for (auto &a : alts) if (a.first == to) { a.second = a.second || none; found = true; break; } if (!found) alts.push_back({to, none}); }
            uint64_t mvv = modelU64(s, ce); auto *mci = ConstantInt::get(cast<IntegerType>(sw->getCondition()->getType()), mvv); BasicBlock *mine = sw->findCaseValue(mci)->getCaseSuccessor();
            z3::expr myCond = Z.bool_val(true);
            for (auto &a : alts) {
                if (a.first == mine) { myCond = a.second; continue; }
                std::shared_ptr<z3::model> m2;
                if (checkSat(s, a.second, &m2)) { auto o = std::make_unique<State>(s); addPC(*o, a.second, m2); o->depth++; enterBlock(*o, o->T().stack.back(), a.first); pushWork(std::move(o)); }
            }
            addPC(s, myCond); s.depth++; enterBlock(s, f, mine); continue; }
        case Instruction::Ret: {
            auto *ri = cast<ReturnInst>(&I); Val rv; bool has = ri->getReturnValue(); if (has) rv = getVal(f, ri->getReturnValue());
            const CallBase *cs = f.callsite; popFrame(s);
            if (!t.stack.empty() && cs) { Frame &cf = t.stack.back(); if (has) setVal(cf, cs, std::move(rv)); finishCall(s, cf, const_cast<CallBase *>(cs)); }
            continue; }
        case Instruction::Unreachable: fail(s, "ub", "unreachable instruction executed");
        case Instruction::Resume: { Val v = getVal(f, I.getOperand(0)); uint64_t obj = (*v.agg)[0].c; uint64_t ti = t.lpTi; auto it = s.exnType.find(obj); if (it != s.exnType.end()) ti = it->second; popFrame(s); unwind(s, obj, ti); continue; }
        case Instruction::LandingPad: { setVal(f, &I, makeAgg({Val::C(64, t.lpExn), Val::C(32, (uint64_t)t.lpSel)})); ++f.pc; continue; }
        case Instruction::Alloca: {
            auto *ai = cast<AllocaInst>(&I); Val cnt = getVal(f, ai->getArraySize()); uint64_t n = concretize(s, cnt, "alloca size");
            uint64_t sz = DL->getTypeAllocSize(ai->getAllocatedType()) * n; auto o = allocObj(s, sz, "stack:" + ai->getName().str(), false, true); f.allocas.push_back(o->base); setVal(f, &I, Val::C(64, o->base)); ++f.pc; continue; }
        case Instruction::Load: { auto *li = cast<LoadInst>(&I); Val p = getVal(f, li->getPointerOperand()); Val v = typedLoad(s, p, li->getType()); setVal(s.T().stack.back(), &I, std::move(v)); ++f.pc; continue; }
        case Instruction::Store: { auto *si = cast<StoreInst>(&I); Val p = getVal(f, si->getPointerOperand()); Val v = getVal(f, si->getValueOperand()); typedStore(s, p, v, si->getValueOperand()->getType()); ++f.pc; continue; }
        case Instruction::GetElementPtr: {
            auto *g = cast<GetElementPtrInst>(&I); Val base = getVal(f, g->getPointerOperand()); uint64_t coff = 0; Val soff; bool hasS = false;
            for (auto gti = gep_type_begin(g), e = gep_type_end(g); gti != e; ++gti) {
                Val idx = getVal(f, gti.getOperand());
                if (StructType *st = gti.getStructTypeOrNull()) { coff += DL->getStructLayout(st)->getElementOffset(idx.c); continue; }
                uint64_t esz = DL->getTypeAllocSize(gti.getIndexedType());
                if (!idx.sym()) { coff += (uint64_t)idx.sext() * esz; continue; }
                Val i64 = sextTo(idx, 64); Val term = esz == 1 ? i64 : binop(s, Instruction::Mul, i64, Val::C(64, esz));
                soff = hasS ? binop(s, Instruction::Add, soff, term) : term; hasS = true;
            }
            Val r = coff ? binop(s, Instruction::Add, base, Val::C(64, coff)) : base; if (hasS) r = binop(s, Instruction::Add, r, soff);
            setVal(f, &I, std::move(r)); ++f.pc; continue; }
        case Instruction::ICmp: { auto *ic = cast<ICmpInst>(&I); setVal(f, &I, icmp(ic->getPredicate(), getVal(f, ic->getOperand(0)), getVal(f, ic->getOperand(1)))); ++f.pc; continue; }
        case Instruction::Select: {
            Val c = getVal(f, I.getOperand(0)), a = getVal(f, I.getOperand(1)), b = getVal(f, I.getOperand(2));
            if (!c.sym()) setVal(f, &I, c.c ? a : b);
            else if (a.agg) throw EngineError{"select on aggregate"};
            else if (a.w == 1) setVal(f, &I, Val::E(z3::ite(c.b(), a.b(), b.b()).simplify()));
            else if (!a.sym() && !b.sym() && a.w <= 64 && a.c == b.c) setVal(f, &I, a);
            else setVal(f, &I, Val::E(z3::ite(c.b(), a.bv(), b.bv())));
            ++f.pc; continue; }
        case Instruction::ZExt: setVal(f, &I, zextTo(getVal(f, I.getOperand(0)), bitsOf(I.getType()))); ++f.pc; continue;
        case Instruction::SExt: setVal(f, &I, sextTo(getVal(f, I.getOperand(0)), bitsOf(I.getType()))); ++f.pc; continue;
        case Instruction::Trunc: setVal(f, &I, truncTo(getVal(f, I.getOperand(0)), bitsOf(I.getType()))); ++f.pc; continue;
        case Instruction::BitCast: case Instruction::PtrToInt: case Instruction::IntToPtr: case Instruction::AddrSpaceCast: {
            Val a = getVal(f, I.getOperand(0)); if (a.agg || isAggTy(I.getType())) throw EngineError{"vector bitcast"}; unsigned w = bitsOf(I.getType());
            if (w != a.w) a = w < a.w ? truncTo(a, w) : zextTo(a, w); setVal(f, &I, a); ++f.pc; continue; }
        case Instruction::Freeze: setVal(f, &I, getVal(f, I.getOperand(0))); ++f.pc; continue;
        case Instruction::ExtractValue: {
            auto *ev = cast<ExtractValueInst>(&I); Val a = getVal(f, ev->getAggregateOperand()); Type *t = ev->getAggregateOperand()->getType(); unsigned idx = 0;
            for (unsigned i : ev->indices()) { if (auto *st = dyn_cast<StructType>(t)) { for (unsigned k = 0; k < i; k++) idx += leafCount(st->getElementType(k)); t = st->getElementType(i); } else { auto *at = cast<ArrayType>(t); idx += i * leafCount(at->getElementType()); t = at->getElementType(); } }
            if (isAggTy(t)) { unsigned n = leafCount(t); setVal(f, &I, makeAgg(std::vector<Val>(a.agg->begin() + idx, a.agg->begin() + idx + n))); } else setVal(f, &I, (*a.agg)[idx]);
            ++f.pc; continue; }
        case Instruction::InsertValue: {
            auto *iv = cast<InsertValueInst>(&I); Val a = getVal(f, iv->getAggregateOperand()), v = getVal(f, iv->getInsertedValueOperand()); Type *t = iv->getAggregateOperand()->getType(); unsigned idx = 0;
            for (unsigned i : iv->indices()) { if (auto *st = dyn_cast<StructType>(t)) { for (unsigned k = 0; k < i; k++) idx += leafCount(st->getElementType(k)); t = st->getElementType(i); } else { auto *at = cast<ArrayType>(t); idx += i * leafCount(at->getElementType()); t = at->getElementType(); } }
            std::vector<Val> l = *a.agg; if (v.agg) for (size_t k = 0; k < v.agg->size(); k++) l[idx + k] = (*v.agg)[k]; else l[idx] = v;
            setVal(f, &I, makeAgg(std::move(l))); ++f.pc; continue; }
        case Instruction::Fence: ++f.pc; continue;
        case Instruction::AtomicRMW: {
            auto *rmw = cast<AtomicRMWInst>(&I); Val p = getVal(f, rmw->getPointerOperand()), v = getVal(f, rmw->getValOperand()); Type *ty = rmw->getValOperand()->getType(); Val old = typedLoad(s, p, ty), nv;
            switch (rmw->getOperation()) {
            case AtomicRMWInst::Xchg: nv = v; break; case AtomicRMWInst::Add: nv = binop(s, Instruction::Add, old, v); break; case AtomicRMWInst::Sub: nv = binop(s, Instruction::Sub, old, v); break;
            case AtomicRMWInst::And: nv = binop(s, Instruction::And, old, v); break; case AtomicRMWInst::Or: nv = binop(s, Instruction::Or, old, v); break; case AtomicRMWInst::Xor: nv = binop(s, Instruction::Xor, old, v); break;
            default: throw EngineError{"atomicrmw op"}; }
            typedStore(s, p, nv, ty); setVal(f, &I, old); ++f.pc; continue; }
        case Instruction::AtomicCmpXchg: {
            auto *cx = cast<AtomicCmpXchgInst>(&I); Val p = getVal(f, cx->getPointerOperand()), cmp = getVal(f, cx->getCompareOperand()), nv = getVal(f, cx->getNewValOperand()); Type *ty = cx->getCompareOperand()->getType();
            Val old = typedLoad(s, p, ty); Val eq = icmp(CmpInst::ICMP_EQ, old, cmp);
            if (eq.sym()) { bool mv = modelTrue(s, eq.b()); std::shared_ptr<z3::model> m2; if (checkSat(s, mv ? !eq.b() : eq.b(), &m2)) reexecFork(s, mv ? !eq.b() : eq.b(), m2); addPC(s, mv ? eq.b() : !eq.b()); eq = Val::C(1, mv); }
            if (eq.c) typedStore(s, p, nv, ty);
            setVal(f, &I, makeAgg({old, eq})); ++f.pc; continue; }
        case Instruction::FAdd: case Instruction::FSub: case Instruction::FMul: case Instruction::FDiv: case Instruction::FRem: {
            Val a = getVal(f, I.getOperand(0)), b = getVal(f, I.getOperand(1)); if (a.sym() || b.sym()) throw EngineError{"symbolic floating point"};
            double x = asD(a), y = asD(b), r = I.getOpcode() == Instruction::FAdd ? x + y : I.getOpcode() == Instruction::FSub ? x - y : I.getOpcode() == Instruction::FMul ? x * y : I.getOpcode() == Instruction::FDiv ? x / y : fmod(x, y);
            setVal(f, &I, fromD(r, a.w)); ++f.pc; continue; }
        case Instruction::FNeg: { Val a = getVal(f, I.getOperand(0)); if (a.sym()) throw EngineError{"symbolic floating point"}; setVal(f, &I, fromD(-asD(a), a.w)); ++f.pc; continue; }
        case Instruction::FCmp: {
            Val a = getVal(f, I.getOperand(0)), b = getVal(f, I.getOperand(1)); if (a.sym() || b.sym()) throw EngineError{"symbolic floating point"};
            double x = asD(a), y = asD(b); bool un = std::isnan(x) || std::isnan(y), r;
            switch (cast<FCmpInst>(&I)->getPredicate()) {
            case CmpInst::FCMP_FALSE: r = false; break; case CmpInst::FCMP_TRUE: r = true; break; case CmpInst::FCMP_ORD: r = !un; break; case CmpInst::FCMP_UNO: r = un; break;
            case CmpInst::FCMP_OEQ: r = !un && x == y; break; case CmpInst::FCMP_ONE: r = !un && x != y; break; case CmpInst::FCMP_OGT: r = !un && x > y; break; case CmpInst::FCMP_OGE: r = !un && x >= y; break; case CmpInst::FCMP_OLT: r = !un && x < y; break; case CmpInst::FCMP_OLE: r = !un && x <= y; break;
            case CmpInst::FCMP_UEQ: r = un || x == y; break; case CmpInst::FCMP_UNE: r = un || x != y; break; case CmpInst::FCMP_UGT: r = un || x > y; break; case CmpInst::FCMP_UGE: r = un || x >= y; break; case CmpInst::FCMP_ULT: r = un || x < y; break; case CmpInst::FCMP_ULE: r = un || x <= y; break;
            default: throw EngineError{"fcmp"}; }
            setVal(f, &I, Val::C(1, r)); ++f.pc; continue; }
        case Instruction::SIToFP: case Instruction::UIToFP: { Val a = getVal(f, I.getOperand(0)); if (a.sym()) { a = Val::C(a.w, concretize(s, a, "int->float conversion")); } double d = I.getOpcode() == Instruction::SIToFP ? (double)a.sext() : (double)a.c; setVal(f, &I, fromD(d, bitsOf(I.getType()))); ++f.pc; continue; }
        case Instruction::FPToSI: case Instruction::FPToUI: { Val a = getVal(f, I.getOperand(0)); if (a.sym()) throw EngineError{"symbolic floating point"}; double d = asD(a); unsigned w = bitsOf(I.getType());
            if (std::isnan(d) || (I.getOpcode() == Instruction::FPToSI ? (d >= ldexp(1.0, w - 1) || d < -ldexp(1.0, w - 1)) : (d >= ldexp(1.0, w) || d <= -1.0))) fail(s, "ub", "float to integer conversion out of range");
            setVal(f, &I, Val::C(w, I.getOpcode() == Instruction::FPToSI ? (uint64_t)(int64_t)d : (uint64_t)d)); ++f.pc; continue; }
        case Instruction::FPExt: case Instruction::FPTrunc: { Val a = getVal(f, I.getOperand(0)); if (a.sym()) throw EngineError{"symbolic floating point"}; setVal(f, &I, fromD(asD(a), bitsOf(I.getType()))); ++f.pc; continue; }
        case Instruction::Call: case Instruction::Invoke: {
            auto *cb = cast<CallBase>(&I);
            if (cb->isInlineAsm()) { if (!cb->getType()->isVoidTy()) throw EngineError{"inline asm with result"}; finishCall(s, f, cb); continue; }
            Function *callee = cb->getCalledFunction();
            if (!callee) { Val fp = getVal(f, cb->getCalledOperand()); uint64_t a = concretize(s, fp, "function pointer"); auto it = funcAt.find(a); if (it == funcAt.end()) fail(s, "memory", "call through invalid function pointer"); callee = it->second; }
            if (handleBuiltin(s, f, cb, callee)) continue;
            callFunction(s, f, cb, callee); continue; }
        default:
            if (auto *bo = dyn_cast<BinaryOperator>(&I)) { setVal(f, &I, binop(s, bo->getOpcode(), getVal(f, bo->getOperand(0)), getVal(f, bo->getOperand(1)), bo)); ++f.pc; continue; }
            { std::string str; raw_string_ostream os(str); I.print(os); throw EngineError{"unsupported instruction: " + str}; }
        }
    }
}

// ---------------------------------------------------------------- path completion, sampling
static std::string valStr(State &s, const Val &v, z3::model *m) {
    if (!v.sym()) return std::to_string(v.c);
    if (!m) return "?";
    return numStr(m->eval(v.w == 1 ? v.a.ex() : v.bv(), true));
}
static void pathDone(State &s) {
    for (auto &r : s.reached) ST.reached.insert(r);
    bool want = concreteMode || (O.sampleEvery && ST.samples.size() < O.maxSamples && (ST.paths % O.sampleEvery == 0));
    if (want) {
        Sample sm;
        if (concreteMode) { for (auto &o : s.obs) sm.obs.push_back({o.tag, valStr(s, o.v, nullptr)}); }
        else { ensureModel(s); sm.vec = inputVector(s, *s.model); for (auto &o : s.obs) sm.obs.push_back({o.tag, valStr(s, o.v, s.model.get())}); }
        ST.samples.push_back(std::move(sm));
    }
}
static bool timedOut = false;
static int sliceI = 0, sliceN = 0; static std::string counterPath, sliceOut;
static void explore() {
    while (!work.empty()) {
        if (wallNow() > O.timeout) { timedOut = true; break; }
        std::unique_ptr<State> s = std::move(work.back()); work.pop_back();
        try { runState(*s); ++ST.paths; }
        catch (PathEnd &) { ++ST.paths; for (auto &r : s->reached) ST.reached.insert(r); }
        catch (Timeout &) { timedOut = true; break; }
        catch (EngineError &e) { ++ST.paths; std::string m = e.msg + " at " + whereOf(*s); if (O.verbose) std::cerr << "ENGINE: " << m << "\n"; if (ST.errors.size() < 50) ST.errors.push_back(m); }
        catch (z3::exception &e) { ++ST.paths; std::string m = std::string("z3 exception: ") + e.msg() + " at " + whereOf(*s); if (O.verbose) std::cerr << "ENGINE: " << m << "\n"; if (ST.errors.size() < 50) ST.errors.push_back(m); solStack.clear(); G->reset(); baseAxiomsAdded = 0; }
        if (O.verbose && ST.paths % 200 == 0) std::cerr << "[" << getpid() << "] paths=" << ST.paths << " queries=" << ST.queries << " instr=" << ST.instr << " solver_s=" << ST.solverSec << " work=" << work.size() << " wall=" << wallNow() << "\n";
        if (O.stopOnViolation && !ST.viol.empty()) break;
    }
    if (timedOut) ST.errors.push_back("wall-clock budget exhausted with " + std::to_string(work.size()) + "+ unexplored states");
}

// ---------------------------------------------------------------- (de)serialisation of worker results
static std::string esc(const std::string &s) { std::string r; for (char c : s) { if (c == '\\') r += "\\\\"; else if (c == '\n') r += "\\n"; else if (c == '\t') r += "\\t"; else r += c; } return r; }
static std::string unesc(const std::string &s) { std::string r; for (size_t i = 0; i < s.size(); i++) { if (s[i] == '\\' && i + 1 < s.size()) { char c = s[++i]; r += c == 'n' ? '\n' : c == 't' ? '\t' : c; } else r += s[i]; } return r; }
static std::vector<std::string> splitTab(const std::string &l) { std::vector<std::string> v; size_t p = 0; while (true) { size_t q = l.find('\t', p); if (q == std::string::npos) { v.push_back(l.substr(p)); break; } v.push_back(l.substr(p, q - p)); p = q + 1; } return v; }
static void writeStats(std::ostream &o) {
    o << "C\t" << ST.paths << "\t" << ST.queries << "\t" << ST.instr << "\t" << ST.forks << "\t" << ST.cacheHits << "\t" << ST.throws << "\t" << ST.assumesCut << "\t" << ST.solverSec << "\t" << prunedStates << "\n";
    for (auto &r : ST.reached) o << "R\t" << esc(r) << "\n";
    for (auto &r : ST.externalsHit) o << "X\t" << esc(r) << "\n";
    for (auto &r : ST.errors) o << "E\t" << esc(r) << "\n";
    for (auto &v : ST.viol) { o << "V\t" << esc(v.kind) << "\t" << esc(v.msg) << "\t" << esc(v.where) << "\t" << v.vec.size() << "\t" << v.sched << "\n"; for (auto &t : v.vec) o << "I\t" << esc(std::get<0>(t)) << "\t" << std::get<1>(t) << "\t" << std::get<2>(t) << "\n"; }
    for (auto &sm : ST.samples) { o << "S\t" << sm.vec.size() << "\t" << sm.obs.size() << "\n"; for (auto &t : sm.vec) o << "I\t" << esc(std::get<0>(t)) << "\t" << std::get<1>(t) << "\t" << std::get<2>(t) << "\n"; for (auto &ob : sm.obs) o << "O\t" << esc(ob.first) << "\t" << esc(ob.second) << "\n"; }
}
static void mergeStats(std::istream &in) {
    std::string l; Violation *cv = nullptr; Sample *cs = nullptr;
    while (std::getline(in, l)) {
        auto f = splitTab(l); if (f.empty()) continue;
        if (f[0] == "C" && f.size() >= 9) { ST.paths += std::stoul(f[1]); ST.queries += std::stoul(f[2]); ST.instr += std::stoul(f[3]); ST.forks += std::stoul(f[4]); ST.cacheHits += std::stoul(f[5]); ST.throws += std::stoul(f[6]); ST.assumesCut += std::stoul(f[7]); ST.solverSec += std::stod(f[8]); if (f.size() > 9) prunedStates += std::stoul(f[9]); }
        else if (f[0] == "R") ST.reached.insert(unesc(f[1])); else if (f[0] == "X") ST.externalsHit.insert(unesc(f[1]));
        else if (f[0] == "E") { if (ST.errors.size() < 200) ST.errors.push_back(unesc(f[1])); }
        else if (f[0] == "V") { Violation v; v.kind = unesc(f[1]); v.msg = unesc(f[2]); v.where = unesc(f[3]); if (f.size() > 5) v.sched = f[5]; bool dup = false; for (auto &o : ST.viol) if (o.kind == v.kind && o.msg == v.msg && o.where == v.where) dup = true; static Violation dummy; if (dup) { dummy = v; cv = &dummy; } else { ST.viol.push_back(v); cv = &ST.viol.back(); } cs = nullptr; }
        else if (f[0] == "S") { ST.samples.emplace_back(); cs = &ST.samples.back(); cv = nullptr; }
        else if (f[0] == "I") { auto t = std::make_tuple(unesc(f[1]), (unsigned)std::stoul(f[2]), f[3]); if (cv) cv->vec.push_back(t); else if (cs) cs->vec.push_back(t); }
        else if (f[0] == "O") { if (cs) cs->obs.push_back({unesc(f[1]), unesc(f[2])}); }
    }
}
static std::string jstr(const std::string &s) { std::string r = "\""; for (unsigned char c : s) { if (c == '"') r += "\\\""; else if (c == '\\') r += "\\\\"; else if (c == '\n') r += "\\n"; else if (c < 0x20 || c >= 0x7f) { char b[8]; snprintf(b, sizeof b, "\\u%04x", c); r += b; } else r += c; } return r + "\""; }
static void writeJson(std::ostream &o, double wall, unsigned workers) {
    auto vecJ = [&](const std::vector<std::tuple<std::string,unsigned,std::string>> &v) { std::string r = "["; for (size_t i = 0; i < v.size(); i++) { if (i) r += ","; r += "{\"name\":" + jstr(std::get<0>(v[i])) + ",\"bits\":" + std::to_string(std::get<1>(v[i])) + ",\"value\":" + jstr(std::get<2>(v[i])) + "}"; } return r + "]"; };
    o << "{\n \"entry\": " << jstr(O.entry) << ",\n \"paths\": " << ST.paths << ",\n \"queries\": " << ST.queries << ",\n \"instructions\": " << ST.instr << ",\n \"forks\": " << ST.forks << ",\n \"cache_hits\": " << ST.cacheHits
      << ",\n \"throws\": " << ST.throws << ",\n \"pruned_states\": " << prunedStates << ",\n \"assume_cuts\": " << ST.assumesCut << ",\n \"solver_s\": " << ST.solverSec << ",\n \"wall_s\": " << wall << ",\n \"workers\": " << workers << ",\n \"timed_out\": " << (timedOut ? "true" : "false") << ",\n";
    o << " \"reached\": ["; { bool first = true; for (auto &r : ST.reached) { if (!first) o << ","; first = false; o << jstr(r); } } o << "],\n";
    o << " \"externals_hit\": ["; { bool first = true; for (auto &r : ST.externalsHit) { if (!first) o << ","; first = false; o << jstr(r); } } o << "],\n";
    o << " \"errors\": ["; for (size_t i = 0; i < ST.errors.size(); i++) { if (i) o << ","; o << jstr(ST.errors[i]); } o << "],\n";
    o << " \"violations\": ["; for (size_t i = 0; i < ST.viol.size(); i++) { auto &v = ST.viol[i]; if (i) o << ","; o << "\n  {\"kind\":" << jstr(v.kind) << ",\"msg\":" << jstr(v.msg) << ",\"where\":" << jstr(v.where) << ",\"schedule\":" << jstr(v.sched) << ",\"inputs\":" << vecJ(v.vec) << "}"; } o << "],\n";
    o << " \"samples\": ["; for (size_t i = 0; i < ST.samples.size(); i++) { auto &sm = ST.samples[i]; if (i) o << ","; o << "\n  {\"inputs\":" << vecJ(sm.vec) << ",\"obs\":["; for (size_t k = 0; k < sm.obs.size(); k++) { if (k) o << ","; o << "[" << jstr(sm.obs[k].first) << "," << jstr(sm.obs[k].second) << "]"; } o << "]}"; } o << "]\n}\n";
}

// ---------------------------------------------------------------- main
int main(int argc, char **argv) {
    std::string modPath;
    for (int i = 1; i < argc; i++) {
        std::string a = argv[i]; auto nxt = [&]() { if (i + 1 >= argc) { std::cerr << "missing value for " << a << "\n"; exit(2); } return std::string(argv[++i]); };
        if (a == "--entry") O.entry = nxt(); else if (a == "--max-steps") O.maxSteps = std::stoul(nxt()); else if (a == "--timeout") O.timeout = std::stod(nxt());
        else if (a == "--jobs") O.jobs = std::stoi(nxt()); else if (a == "--out") O.outPath = nxt(); else if (a == "--concrete") { O.concretePath = nxt(); concreteMode = true; }
        else if (a == "--sample-every") O.sampleEvery = std::stoul(nxt()); else if (a == "--max-samples") O.maxSamples = std::stoul(nxt()); else if (a == "-v") O.verbose = true;
        else if (a == "--stop-on-violation") O.stopOnViolation = true; else if (a == "--noop") O.noops.push_back(nxt()); else if (a == "--no-ub-checks") O.checkOverflow = false; else if (a == "--ub-checks") O.checkOverflow = true;
        else if (a == "--dump-dir") O.dumpDir = nxt(); else if (a == "--dump-every") O.dumpEvery = std::stoul(nxt()); else if (a == "--preempt") preemptBound = std::stoul(nxt()); else if (a == "--query-timeout-ms") O.queryTimeoutMs = std::stoul(nxt());
        else if (a == "--schedule") { haveFixedSched = true; std::string v = nxt(); size_t p0 = 0; while (p0 < v.size()) { size_t q = v.find(',', p0); if (q == std::string::npos) q = v.size(); if (q > p0) fixedSched.push_back(atoi(v.substr(p0, q - p0).c_str())); p0 = q + 1; } }
        else if (a == "--no-state-hashing") stateHashing = false;
        else if (a == "--split") O.splitTarget = std::stoul(nxt()); else if (a == "--ub-file") O.ubFiles.push_back(nxt());
        else if (a == "--slice") { std::string v = nxt(); sliceI = atoi(v.c_str()); sliceN = atoi(v.c_str() + v.find('/') + 1); } else if (a == "--counter") counterPath = nxt(); else if (a == "--slice-out") sliceOut = nxt();
        else if (a[0] == '-') { std::cerr << "unknown option " << a << "\n"; return 2; } else modPath = a;
    }
    if (modPath.empty()) { std::cerr << "usage: sqsym module.bc [--entry f] [--jobs n] [--timeout s] [--out result.json] ...\n"; return 2; }
    T0 = std::chrono::steady_clock::now();
    mallopt(M_TRIM_THRESHOLD, 1 << 30); mallopt(M_MMAP_THRESHOLD, 1 << 30); mallopt(M_TOP_PAD, 64 << 20);
    z3::params sp(Z); if (O.queryTimeoutMs) sp.set("rlimit", O.queryTimeoutMs * 20000u); // deterministic resource limit (a wall-clock timeout would spawn a timer thread per query after fork)
    z3::solver gsol(Z); gsol.set(sp); G = &gsol;
    LLVMContext C; SMDiagnostic E;
    auto M = parseIRFile(modPath, E, C); if (!M) { E.print("sqsym", errs()); return 2; }
    MOD = M.get(); DL = &M->getDataLayout();
    if (concreteMode) { std::ifstream in(O.concretePath); std::string l; while (in >> l) concreteInputs.push_back(l); }
    auto s0 = std::make_unique<State>(); s0->threads.emplace_back();
    errnoAddr = allocObj(*s0, 4, "errno", true)->base;
    uint64_t fa = 0x1000;
    for (auto &F : *M) { globalAddr[&F] = fa; funcAt[fa] = &F; globalByName[F.getName().str()] = fa; fa += 16; }
    std::vector<std::pair<GlobalVariable *, ObjP>> gos;
    for (auto &GV : M->globals()) {
        if (GV.hasAppendingLinkage()) continue;
        Type *t = GV.getValueType(); uint64_t sz = t->isSized() ? DL->getTypeAllocSize(t) : 8;
        auto o = allocObj(*s0, sz, GV.getName().str(), true); globalAddr[&GV] = o->base; globalByName[GV.getName().str()] = o->base; globalNameAt[o->base] = GV.getName().str();
        if (GV.isDeclaration()) o->ext = true; else gos.push_back({&GV, o});
    }
    for (auto &A : M->aliases()) if (auto *gv = dyn_cast<GlobalValue>(A.getAliasee()->stripPointerCasts())) { globalAddr[&A] = globalAddr.at(gv); globalByName[A.getName().str()] = globalAddr.at(gv); }
    try { for (auto &g : gos) { initConst(*g.second, 0, g.first->getInitializer()); if (g.first->isConstant()) g.second->ro = true; } }
    catch (EngineError &e) { std::cerr << "sqsym: global initialisation failed: " << e.msg << "\n"; return 2; }
    Function *H = M->getFunction(O.entry); if (!H || H->isDeclaration()) { errs() << "sqsym: no entry function " << O.entry << "\n"; return 2; }
    std::vector<std::pair<uint64_t, Function *>> ctors;
    if (auto *gc = M->getGlobalVariable("llvm.global_ctors")) if (gc->hasInitializer()) if (auto *arr = dyn_cast<ConstantArray>(gc->getInitializer()))
        for (auto &op : arr->operands()) { auto *st = cast<ConstantStruct>(op); uint64_t prio = cast<ConstantInt>(st->getOperand(0))->getZExtValue(); if (auto *fn = dyn_cast<Function>(st->getOperand(1)->stripPointerCasts())) ctors.push_back({prio, fn}); }
    std::stable_sort(ctors.begin(), ctors.end(), [](auto &a, auto &b) { return a.first < b.first; });
    for (auto &c : ctors) entrySeq.push_back(c.second);
    if (Function *pre = M->getFunction("vf_models_init")) entrySeq.insert(entrySeq.begin(), pre);
    entrySeq.push_back(H);
    work.push_back(std::move(s0));
    unsigned workers = 1;
    if (O.jobs > 1 && !concreteMode && sliceN == 0) {
        // master: spawn independent slice processes of this same binary (no fork-sharing of the z3 heap: COW faults were
        // measured at 50-340 us each with 16 children in this VM). Every slice recomputes the same frontier deterministically
        // (ASLR off), and the frontier items are handed out through a shared counter file.
        work.clear();
        std::string tmpl = (O.outPath.empty() ? std::string("/tmp/sqsym.") + std::to_string(getpid()) : O.outPath);
        std::string cpath = tmpl + ".ctr"; { int fd = open(cpath.c_str(), O_RDWR | O_CREAT | O_TRUNC, 0600); uint64_t z = 0; if (write(fd, &z, 8) != 8) {} close(fd); }
        workers = O.jobs; std::map<pid_t, int> pids;
        for (int k = 0; k < O.jobs; k++) {
            pid_t p = fork();
            if (p == 0) {
                std::vector<std::string> av(argv, argv + argc); av.push_back("--slice"); av.push_back(std::to_string(k) + "/" + std::to_string(O.jobs)); av.push_back("--counter"); av.push_back(cpath);
                av.push_back("--slice-out"); av.push_back(tmpl + ".w" + std::to_string(k));
                std::vector<char *> cav; for (auto &x : av) cav.push_back(const_cast<char *>(x.c_str())); cav.push_back(nullptr);
                personality(ADDR_NO_RANDOMIZE); execv("/proc/self/exe", cav.data()); _exit(127);
            }
            pids[p] = k;
        }
        std::string fr0; 
        for (int n = 0; n < O.jobs; n++) {
            int st; pid_t p = wait(&st); if (p <= 0) break;
            int k = pids[p]; std::string fn = tmpl + ".w" + std::to_string(k); std::ifstream in(fn);
            if (!WIFEXITED(st) || !in) { ST.errors.push_back("slice " + std::to_string(k) + " died (status " + std::to_string(st) + ")"); continue; }
            std::string first; std::getline(in, first);
            if (first.rfind("F\t", 0) != 0) { ST.errors.push_back("slice " + std::to_string(k) + " wrote no frontier line"); continue; }
            if (fr0.empty()) fr0 = first; else if (fr0 != first) ST.errors.push_back("slices disagree on the frontier (" + fr0 + " vs " + first + "): partition not trustworthy");
            mergeStats(in); in.close(); unlink(fn.c_str());
        }
        unlink(cpath.c_str());
        for (auto &e : ST.errors) if (e.find("wall-clock budget") != std::string::npos) timedOut = true;
    } else if (sliceN > 0) {
        // slice process: deterministic breadth-first phase until enough independent states exist, then shared-counter dispatch
        unsigned target = O.splitTarget ? O.splitTarget : sliceN * 4; unsigned long p1 = 0;
        while (!work.empty() && work.size() < target && !(p1 >= 3ul * sliceN && work.size() >= 2) && !timedOut) {
            ++p1;
            std::unique_ptr<State> s = std::move(work.front()); work.erase(work.begin());
            try { runState(*s); ++ST.paths; }
            catch (PathEnd &) { ++ST.paths; for (auto &r : s->reached) ST.reached.insert(r); }
            catch (Timeout &) { timedOut = true; }
            catch (EngineError &e) { ++ST.paths; ST.errors.push_back(e.msg + " at " + whereOf(*s)); }
            catch (z3::exception &e) { ++ST.paths; ST.errors.push_back(std::string("z3 exception: ") + e.msg()); solStack.clear(); G->reset(); baseAxiomsAdded = 0; }
        }
        uint64_t fh = 1469598103934665603ULL; for (auto &st : work) { fh = (fh ^ st->pc.size()) * 1099511628211ULL; for (auto &c : st->pc) fh = (fh ^ Z3_get_ast_hash(Z, c.a)) * 1099511628211ULL; fh = (fh ^ st->steps) * 1099511628211ULL; }
        std::string frontier = "F\t" + std::to_string(work.size()) + "\t" + std::to_string(fh) + "\t" + std::to_string(ST.paths);
        if (sliceI != 0) { Stats fresh; ST = fresh; prunedStates = 0; }   // phase-1 results are reported once, by slice 0
        if (timedOut) ST.errors.push_back("wall-clock budget exhausted during the breadth-first phase with " + std::to_string(work.size()) + "+ unexplored states");
        std::vector<std::unique_ptr<State>> items = std::move(work); work.clear();
        int fd = open(counterPath.c_str(), O_RDWR); auto *counter = (std::atomic<uint64_t> *)mmap(nullptr, 8, PROT_READ | PROT_WRITE, MAP_SHARED, fd, 0);
        if (fd < 0 || counter == MAP_FAILED) { std::cerr << "sqsym: cannot map counter\n"; _exit(2); }
        double tp1 = wallNow(); unsigned got = 0; double biggest = 0;
        while (!timedOut) { uint64_t i = counter->fetch_add(1); if (i >= items.size()) break; double t = wallNow(); work.push_back(std::move(items[i])); explore(); ++got; biggest = std::max(biggest, wallNow() - t); }
        if (O.verbose) std::cerr << "slice " << sliceI << ": phase1 " << tp1 << "s items=" << items.size() << " got=" << got << " biggest_item=" << biggest << "s total=" << wallNow() << "s\n";
        std::ofstream o(sliceOut); o << frontier << "\n"; writeStats(o); o.close(); _exit(0);
    } else explore();
    double wall = wallNow();
    if (!O.outPath.empty()) { std::ofstream o(O.outPath); writeJson(o, wall, workers); } else writeJson(std::cout, wall, workers);
    std::cerr << "sqsym: entry=" << O.entry << " paths=" << ST.paths << " queries=" << ST.queries << " instr=" << ST.instr << " violations=" << ST.viol.size() << " errors=" << ST.errors.size() << " solver_s=" << ST.solverSec << " wall_s=" << wall << "\n";
    _exit(!ST.viol.empty() ? 1 : (!ST.errors.empty() ? 2 : 0));
}
