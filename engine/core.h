// sqsym: bounded symbolic executor over LLVM IR (LLVM 14 C++ API + z3).
// core.h: values, memory objects, state.
#pragma once
#include <llvm/IR/LLVMContext.h>
#include <llvm/IR/Module.h>
#include <llvm/IR/Instructions.h>
#include <llvm/IR/IntrinsicInst.h>
#include <llvm/IR/Constants.h>
#include <llvm/IR/DataLayout.h>
#include <llvm/IR/Operator.h>
#include <llvm/IR/GetElementPtrTypeIterator.h>
#include <llvm/IR/DebugInfoMetadata.h>
#include <llvm/IRReader/IRReader.h>
#include <llvm/Support/SourceMgr.h>
#include <llvm/Support/raw_ostream.h>
#include <llvm/ADT/SmallString.h>
#include <z3++.h>
#include <map>
#include <unordered_map>
#include <set>
#include <memory>
#include <vector>
#include <string>
#include <chrono>
#include <iostream>
#include <sstream>
#include <fstream>
#include <cassert>
#include <cstring>

extern z3::context Z;

// refcounted handle on a z3 ast (bit-vector, or Bool for i1 values)
struct Ast {
    Z3_ast a = nullptr;
    Ast() {}
    Ast(const z3::expr &e) : a(e) { if (a) Z3_inc_ref(Z, a); }
    Ast(const Ast &o) : a(o.a) { if (a) Z3_inc_ref(Z, a); }
    Ast(Ast &&o) noexcept : a(o.a) { o.a = nullptr; }
    Ast &operator=(const Ast &o) { if (o.a) Z3_inc_ref(Z, o.a); if (a) Z3_dec_ref(Z, a); a = o.a; return *this; }
    Ast &operator=(Ast &&o) noexcept { if (this != &o) { if (a) Z3_dec_ref(Z, a); a = o.a; o.a = nullptr; } return *this; }
    ~Ast() { if (a) Z3_dec_ref(Z, a); }
    explicit operator bool() const { return a != nullptr; }
    z3::expr ex() const { return z3::expr(Z, a); }
    unsigned id() const { return Z3_get_ast_id(Z, a); }
};

struct Val {
    uint32_t w = 0;          // bit width (pointers 64, double 64, float 32); 0 = void/aggregate
    uint64_t c = 0;          // concrete value (masked) when !a
    Ast a;                   // symbolic: bv(w) for w>1, Bool for w==1. Also used for concrete w>64.
    std::shared_ptr<std::vector<Val>> agg; // aggregate leaves (flattened)
    bool sym() const { return (bool)a; }
    static uint64_t mask(unsigned w) { return w >= 64 ? ~0ULL : ((1ULL << w) - 1); }
    static Val C(unsigned w, uint64_t v) { Val r; r.w = w; r.c = v & mask(w); return r; }
    static Val E(const z3::expr &x);            // from bv/bool expression (folds numerals)
    z3::expr bv() const;                         // as bit-vector of width w
    z3::expr b() const;                          // as Bool (w==1)
    int64_t sext() const { if (w >= 64) return (int64_t)c; uint64_t s = 1ULL << (w - 1); return (int64_t)((c ^ s) - s); }
};

struct Obj {
    uint64_t base = 0;
    std::vector<uint8_t> b;                       // concrete bytes
    std::shared_ptr<std::vector<Ast>> s;          // optional symbolic overlay (same size); null entry = concrete
    bool freed = false, ro = false, ext = false, heap = false, stack = false;
    std::string name;
    uint64_t size() const { return b.size(); }
    bool hasSym() const { return (bool)s; }
};
using ObjP = std::shared_ptr<Obj>;

struct FuncInfo {
    llvm::Function *f;
    std::unordered_map<const llvm::Value *, unsigned> slot;
    unsigned nslots = 0;
};

struct Frame {
    FuncInfo *fi = nullptr;
    llvm::BasicBlock *bb = nullptr, *prev = nullptr;
    llvm::BasicBlock::iterator pc;
    std::vector<Val> regs;
    std::vector<uint64_t> allocas;
    std::vector<Val> varargs;
    const llvm::CallBase *callsite = nullptr;  // call instruction in the caller
    uint64_t stackMark = 0;                    // spawned threads: stack pointer to restore when this frame is popped
};

struct ExnRec { uint64_t obj = 0, ti = 0; };

struct Thread {
    std::vector<Frame> stack;
    std::vector<ExnRec> caught;       // handler stack (__cxa_begin_catch)
    uint64_t lpExn = 0; int64_t lpSel = 0; uint64_t lpTi = 0; // pending landingpad values
    bool done = false;
    bool started = false;
    uint64_t nextStack = 0;           // spawned threads have their own stack region (addresses depend on the thread's own history only)
};

struct Input { std::string name; unsigned w; Ast e; };
struct Observation { std::string tag; Val v; };

struct State {
    std::vector<Thread> threads;
    int cur = 0;
    std::map<uint64_t, ObjP> mem;                // all objects; in thread mode: only objects created/written since the first vf_spawn (null = erased base object)
    std::shared_ptr<const std::map<uint64_t, ObjP>> baseMem; // thread mode: immutable snapshot of memory at the first vf_spawn, shared by all states
    std::vector<Ast> pc;                         // path condition (Bool asts)
    std::vector<Input> inputs;
    std::vector<Observation> obs;
    std::set<std::string> reached;
    std::unordered_map<unsigned, std::pair<Ast, uint64_t>> ptrObj;  // symbolic pointer ast id -> (ast kept alive, object base proven in bounds)
    std::unordered_map<unsigned, std::pair<Ast, bool>> known;       // implied branch conditions (ast kept alive: ids are reused after GC)
    std::map<uint64_t, uint64_t> exnType;           // exception object -> typeinfo
    std::shared_ptr<z3::model> model;               // satisfies pc (invariant) or null
    size_t modelGen = 0;                            // number of base axioms the model was produced under
    uint64_t nextAddr = 0x10000000;
    uint64_t nextStack = 0x7f0000000000ULL;
    unsigned long steps = 0;
    unsigned depth = 0;                             // number of forks on this path
    std::vector<uint8_t> sched;                     // scheduler decisions (thread ids)
    unsigned entryIdx = 0;                          // next entry function (ctors, then harness)
    int skipThread = -1; const llvm::Instruction *skipAt = nullptr; // schedule point already taken
    unsigned preempts = 0;
    bool joining = false;
    std::set<uint64_t> dirty;                       // objects written since the first vf_spawn (thread mode)
    uint64_t baseHash[2] = {0, 0};                  // hash of the whole memory at the first vf_spawn
    unsigned concIdx = 0;                           // next concrete input (vectors mode)
    Thread &T() { return threads[cur]; }
};

struct PathEnd {};
struct EngineError { std::string msg; };
