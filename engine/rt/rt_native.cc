// Native replay runtime: feeds recorded values to vf_nondet_* in call order.
// VF_REPLAY=<file with one value per line>. Exit codes: 0 pass, 1 assertion failed (violation reproduced),
// 3 assumption failed (vector does not satisfy harness assumptions), sanitizer errors abort with their own code.
#include <cstdio>
#include <cstdlib>
#include <cstring>
#include <cstdint>
#include <vector>
#include <string>
#include <exception>
static std::vector<uint64_t> vals; static size_t idx = 0; static bool loaded = false;
static void load() {
    loaded = true; const char *p = getenv("VF_REPLAY"); if (!p) return; FILE *f = fopen(p, "r"); if (!f) { fprintf(stderr, "cannot open %s\n", p); exit(4); }
    char buf[256]; while (fscanf(f, "%255s", buf) == 1) vals.push_back(strtoull(buf, nullptr, 0)); fclose(f);
}
static uint64_t next() { if (!loaded) load(); if (idx >= vals.size()) { ++idx; return 0; } return vals[idx++]; }
extern "C" {
uint8_t vf_nondet_u8(const char *) { return (uint8_t)next(); }
uint16_t vf_nondet_u16(const char *) { return (uint16_t)next(); }
uint32_t vf_nondet_u32(const char *) { return (uint32_t)next(); }
uint64_t vf_nondet_u64(const char *) { return next(); }
void vf_nondet_buf(void *p, size_t n, const char *) { for (size_t i = 0; i < n; i++) ((uint8_t *)p)[i] = (uint8_t)next(); }
void vf_assume(int c) { if (!c) { printf("ASSUMPTION-FAILED\n"); fflush(stdout); _Exit(3); } }
void vf_assert(int c, const char *m) { if (!c) { printf("NATIVE-ASSERT-FAILED: %s\n", m); fflush(stdout); _Exit(1); } }
void vf_observe(const char *t, uint64_t v) { printf("obs %s=%llu\n", t, (unsigned long long)v); }
void vf_reach(const char *) {}
uint64_t vf_concretize(uint64_t v) { return v; }
int vf_spawn(void (*fn)(void *), void *arg) { fn(arg); return 1; } /* native replay runs threads sequentially */
void vf_join(void) {}
void vf_yield(void) {}
uint32_t vf_choose(uint32_t n, const char *) { return (uint32_t)(next() % n); }
void xassert(const char *msg, const char *file, int line) { printf("NATIVE-XASSERT: %s (%s:%d)\n", msg, file, line); fflush(stdout); _Exit(1); }
}
void fatal(const char *m) { printf("NATIVE-FATAL: %s\n", m); fflush(stdout); _Exit(1); }
void fatalf(const char *m, ...) { printf("NATIVE-FATAL: %s\n", m); fflush(stdout); _Exit(1); }
void fatal_dump(const char *m) { printf("NATIVE-FATAL: %s\n", m); fflush(stdout); _Exit(1); }
extern "C" void VF_ENTRY(void);
int main() {
    std::set_terminate([] { printf("NATIVE-TERMINATE: uncaught exception\n"); fflush(stdout); _Exit(1); });
    printf("NATIVE-MAIN\n"); fflush(stdout); // global constructors are done: anything that fails from here on fails inside the harness entry
    VF_ENTRY(); printf("NATIVE-PASS\n"); return 0;
}
