#!/bin/sh
# builds the engine and the model bitcode; offline, from files on disk only
set -e
cd "$(dirname "$0")"
g++ -O2 -g -std=c++17 $(llvm-config-14 --cxxflags | sed 's/-std=c++14//; s/-fno-exceptions//') -fexceptions sqsym.cc -o sqsym.new $(llvm-config-14 --ldflags --libs) -lz3 && mv -f sqsym.new sqsym
cd models
gcc gen_ctype.c -o gen_ctype && ./gen_ctype > ctype_tables.h && rm -f gen_ctype
clang-14 -O1 -fno-builtin -fno-vectorize -fno-slp-vectorize -fno-unroll-loops -Wno-everything -emit-llvm -c libc.c -o libc.bc.new && mv -f libc.bc.new libc.bc
for f in *.cc; do [ -f "$f" ] && clang++-14 -std=c++17 -O1 -fno-builtin -fno-vectorize -fno-slp-vectorize -fno-unroll-loops -Wno-everything -emit-llvm -c "$f" -o "${f%.cc}.bc"; done
echo "engine built"
